#!/bin/sh
# Build the verifier offline from files on disk only.
set -e
export GOFLAGS=-mod=mod GOPROXY=off GOSUMDB=off GOTOOLCHAIN=local
cd /verif/cmd/govc
cp /repo/go.sum go.sum
go build -o /verif/bin/govc .
