package datastore

// BOUNDED stand-in for the C01 resolver (repoManager.findMatch / invalidateAncestors), which
// govc cannot yet bring under an unbounded contract (recursive walk over a ghost DAG).
// Exhaustive over: all single-rooted DAGs with up to VERIF_BOUND nodes (version ids 1..N, every
// non-root node has an ORDERED non-empty list of parents with smaller ids), every placement of
// {nothing, live value, tombstone} on the nodes, every queried version. The REAL findMatch is run
// against an executable form of the property's statement:
//   Cand = entries at V or at a strict ancestor of V
//   Max  = entries of Cand not superseded by another entry of Cand that has them as a strict ancestor
//   exactly one live entry in Max -> that entry;  none -> absent;  two or more -> must not succeed
// Injected with `go test -overlay`; prints one line per mismatch.

import (
	"fmt"
	"os"
	"strconv"
	"strings"
	"testing"

	"github.com/janelia-flyem/dvid/dvid"
	"github.com/janelia-flyem/dvid/storage"
)

type vbDAG [][]int // parents[v] for v = 1..N (index 0 unused)

func vbAncestors(d vbDAG, v int, out map[int]bool) {
	for _, p := range d[v] {
		if !out[p] {
			out[p] = true
			vbAncestors(d, p, out)
		}
	}
}

// placement: 0 nothing, 1 live, 2 tombstone
func vbResolve(d vbDAG, place []int, v int) (kind string, at int) {
	anc := map[int]bool{}
	vbAncestors(d, v, anc)
	cand := []int{}
	if place[v] != 0 {
		cand = append(cand, v)
	}
	for a := range anc {
		if place[a] != 0 {
			cand = append(cand, a)
		}
	}
	live := []int{}
	for _, a := range cand {
		superseded := false
		for _, b := range cand {
			if b == a {
				continue
			}
			ab := map[int]bool{}
			vbAncestors(d, b, ab)
			if ab[a] {
				superseded = true
				break
			}
		}
		if !superseded && place[a] == 1 {
			live = append(live, a)
		}
	}
	switch len(live) {
	case 0:
		return "absent", 0
	case 1:
		return "value", live[0]
	}
	return "conflict", 0
}

func vbOrderedSubsets(n int) [][]int {
	// all ordered non-empty lists of distinct elements of 1..n
	var out [][]int
	var rec func(cur []int, used int)
	rec = func(cur []int, used int) {
		if len(cur) > 0 {
			out = append(out, append([]int{}, cur...))
		}
		for i := 1; i <= n; i++ {
			if used&(1<<uint(i)) == 0 {
				rec(append(cur, i), used|1<<uint(i))
			}
		}
	}
	rec(nil, 0)
	return out
}

func vbEnumDAGs(n int, f func(d vbDAG)) {
	d := make(vbDAG, n+1)
	var rec func(v int)
	rec = func(v int) {
		if v > n {
			f(d)
			return
		}
		for _, ps := range vbOrderedSubsets(v - 1) {
			d[v] = ps
			rec(v + 1)
		}
	}
	if n >= 1 {
		rec(2)
	}
}

func vbInstall(d vbDAG) {
	n := len(d) - 1
	m := &repoManager{
		repos:         map[dvid.UUID]*repoT{},
		versionToUUID: map[dvid.VersionID]dvid.UUID{},
		uuidToVersion: map[dvid.UUID]dvid.VersionID{},
	}
	r := &repoT{uuid: "u1", version: 1, dag: &dagT{root: "u1", rootV: 1, nodes: map[dvid.VersionID]*nodeT{}}}
	for v := 1; v <= n; v++ {
		u := dvid.UUID("u" + strconv.Itoa(v))
		m.versionToUUID[dvid.VersionID(v)] = u
		m.uuidToVersion[u] = dvid.VersionID(v)
		m.repos[u] = r
		node := &nodeT{uuid: u, version: dvid.VersionID(v)}
		for _, p := range d[v] {
			node.parents = append(node.parents, dvid.VersionID(p))
		}
		r.dag.nodes[dvid.VersionID(v)] = node
	}
	manager = m
}

func vbCaseID(d vbDAG, place []int, v int) string {
	var sb strings.Builder
	for i := 2; i < len(d); i++ {
		if i > 2 {
			sb.WriteByte(';')
		}
		fmt.Fprintf(&sb, "%d<-", i)
		for j, p := range d[i] {
			if j > 0 {
				sb.WriteByte(',')
			}
			sb.WriteString(strconv.Itoa(p))
		}
	}
	sb.WriteString("|")
	for i := 1; i < len(place); i++ {
		sb.WriteByte("-LT"[place[i]])
	}
	fmt.Fprintf(&sb, "|q%d", v)
	return sb.String()
}

func TestVerifBoundedFindMatch(t *testing.T) {
	bound := 4
	if s := os.Getenv("VERIF_BOUND"); s != "" {
		bound, _ = strconv.Atoi(s)
	}
	saved := manager
	defer func() { manager = saved }()
	cases, mismatches := 0, 0
	for n := 1; n <= bound; n++ {
		vbEnumDAGs(n, func(d vbDAG) {
			vbInstall(d)
			total := 1
			for i := 0; i < n; i++ {
				total *= 3
			}
			place := make([]int, n+1)
			kvs := make([]*storage.KeyValue, n+1)
			for code := 0; code < total; code++ {
				c := code
				for i := 1; i <= n; i++ {
					place[i] = c % 3
					c /= 3
				}
				for v := 1; v <= n; v++ {
					// fresh entries for every query: findMatch mutates the invalid flags
					kvv := kvVersions{}
					for i := 1; i <= n; i++ {
						switch place[i] {
						case 1:
							kvs[i] = &storage.KeyValue{K: storage.Key{1, 0, 0, 0, 1, 'k', 0, 0, 0, byte(i), 0, 0, 0, 0, storage.MarkData}, V: []byte{byte(i)}}
							kvv[dvid.VersionID(i)] = kvvNode{kv: kvs[i]}
						case 2:
							kvs[i] = &storage.KeyValue{K: storage.Key{1, 0, 0, 0, 1, 'k', 0, 0, 0, byte(i), 0, 0, 0, 0, storage.MarkTombstone}}
							kvv[dvid.VersionID(i)] = kvvNode{kv: kvs[i]}
						default:
							kvs[i] = nil
						}
					}
					cases++
					kind, at := vbResolve(d, place, v)
					kv, _, err := kvv.FindMatch(dvid.VersionID(v))
					ok := false
					switch kind {
					case "value":
						ok = err == nil && kv == kvs[at]
					case "absent":
						ok = err == nil && kv == nil
					case "conflict":
						ok = kv == nil
					}
					if !ok {
						mismatches++
						got := "nil"
						if kv != nil {
							got = fmt.Sprintf("entry@%d", kv.K[9])
						}
						if err != nil {
							got += " err=" + strings.SplitN(err.Error(), " for key", 2)[0]
						}
						want := kind
						if kind == "value" {
							want = fmt.Sprintf("entry@%d", at)
						}
						fmt.Printf("BOUNDED-MISMATCH %s want=%s got=%s\n", vbCaseID(d, place, v), want, strings.ReplaceAll(got, " ", "_"))
					}
				}
			}
		})
	}
	fmt.Printf("BOUNDED-CASES %d mismatches %d bound %d\n", cases, mismatches, bound)
}
