package dvid

import (
	"bytes"
	"image"
	"image/color"
	"image/jpeg"
	"testing"
)

func TestVerifJPEGColor(t *testing.T) {
	img := image.NewRGBA(image.Rect(0, 0, 8, 8))
	img.Set(1, 1, color.RGBA{255, 0, 0, 255})
	var b bytes.Buffer
	jpeg.Encode(&b, img, nil)
	s := append([]byte{5 << 5}, b.Bytes()...)
	defer func() { t.Logf("recovered: %v", recover()) }()
	_, _, err := DeserializeData(s, true)
	t.Logf("err=%v", err)
}
