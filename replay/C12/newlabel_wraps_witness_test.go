//go:build badger

package labelmap

import (
	"fmt"
	"testing"

	"github.com/janelia-flyem/dvid/dvid"
	"github.com/janelia-flyem/dvid/server"
)

// Witness for the failing obligation labelmap.Data.newLabel#assert1 (C12: a newly allocated label is
// greater than every label already present): after POST maxlabel/18446744073709551615 (accepted: it is a
// legal uint64) the allocator used by cleaves and splits incremented the counter past 2^64-1 and handed
// out label 0 - the protected background label - and reset the repo-wide maximum to 0.
// Run with: go test -tags badger -run TestVerifWitnessNewLabelWraps ./datatype/labelmap
func TestVerifWitnessNewLabelWraps(t *testing.T) {
	if err := server.OpenTest(); err != nil {
		t.Fatalf("can't open test server: %v\n", err)
	}
	defer server.CloseTest()

	uuid, v := initTestRepo()
	server.CreateTestInstance(t, uuid, "labelmap", "labels", dvid.Config{})
	d, err := GetByUUIDName(uuid, "labels")
	if err != nil {
		t.Fatal(err)
	}
	server.TestHTTP(t, "POST", fmt.Sprintf("%snode/%s/labels/maxlabel/18446744073709551615", server.WebAPIPath, uuid), nil)
	label, err := d.newLabel(v)
	if err == nil {
		t.Fatalf("with every label in use the allocator handed out label %d", label)
	}
}
