//go:build !clustered && !gcloud
// +build !clustered,!gcloud

package datastore

// Witness for obligation repoManager.loadMetadata#inv.loop3.preserved.1:
// newUUID persists the id maps (putCaches) and then the counters (putNewIDs). If the process
// dies between the two writes, the persisted versionToUUID map contains v == persisted
// versionID. loadMetadata only repairs v > versionID, so after the restart the next new
// version gets a version id that already names another node.
// Run: go test -tags badger -overlay <ov.json> -vet=off -run TestVerifVersionIDReissue ./datastore

import (
	"testing"

	"github.com/janelia-flyem/dvid/dvid"
)

func TestVerifVersionIDReissue(t *testing.T) {
	OpenTest()
	defer CloseTest()

	root, err := NewRepo("crash test", "crash between putCaches and putNewIDs", nil, "")
	if err != nil {
		t.Fatal(err)
	}
	if err := Commit(root, "commit root", nil); err != nil {
		t.Fatal(err)
	}
	// First half of newUUID for a new version, exactly as the real code does it ...
	crashed := dvid.NewUUID()
	manager.idMutex.Lock()
	curid := manager.versionID
	manager.versionToUUID[curid] = crashed
	manager.uuidToVersion[crashed] = curid
	manager.versionID++
	manager.idMutex.Unlock()
	if err := manager.putCaches(); err != nil {
		t.Fatal(err)
	}
	// ... and the process dies here: putNewIDs() never runs.
	CloseReopenTest()

	v1, found := manager.uuidToVersion[crashed]
	if !found {
		t.Skip("interrupted uuid not in persisted map")
	}
	child, err := NewVersion(root, "child after restart", "", nil)
	if err != nil {
		t.Fatal(err)
	}
	v2 := manager.uuidToVersion[child]
	t.Logf("version id of interrupted uuid %s = %d, version id issued after restart to %s = %d", crashed, v1, child, v2)
	if v1 == v2 {
		t.Errorf("VERIF-WITNESS version id %d issued twice (names %s and %s); versionToUUID[%d] = %s", v1, crashed, child, v1, manager.versionToUUID[v1])
	}
}
