//go:build badger

package labelmap

import (
	"encoding/json"
	"fmt"
	"testing"

	"github.com/janelia-flyem/dvid/dvid"
	"github.com/janelia-flyem/dvid/server"
)

// Witness for the failing obligations Data.newLabels#assert3/#assert4 (C12: allocated labels only move
// forward): a request for so many labels that MaxRepoLabel + n wraps around 2^64 was acknowledged and
// moved the label counter BACKWARDS, so labels already handed out were issued again; a request for 0
// labels set an error that was then overwritten and was acknowledged with start > end.
// Run with: go test -tags badger -run TestVerifWitnessNextLabelOverflow ./datatype/labelmap
func TestVerifWitnessNextLabelOverflow(t *testing.T) {
	if err := server.OpenTest(); err != nil {
		t.Fatalf("can't open test server: %v\n", err)
	}
	defer server.CloseTest()

	uuid, _ := initTestRepo()
	server.CreateTestInstance(t, uuid, "labelmap", "labels", dvid.Config{})

	type span struct {
		Start uint64 `json:"start"`
		End   uint64 `json:"end"`
	}
	reserve := func(n string) (span, int) {
		resp := server.TestHTTPResponse(t, "POST", fmt.Sprintf("%snode/%s/labels/nextlabel/%s", server.WebAPIPath, uuid, n), nil)
		var s span
		if resp.Code == 200 {
			if err := json.Unmarshal(resp.Body.Bytes(), &s); err != nil {
				t.Fatalf("bad nextlabel response %q: %v", resp.Body.String(), err)
			}
		}
		return s, resp.Code
	}

	first, code := reserve("10")
	if code != 200 || first.End != first.Start+9 {
		t.Fatalf("reserving 10 labels: status %d, span %v", code, first)
	}
	if s, code := reserve("0"); code == 200 {
		t.Errorf("request for 0 labels acknowledged with span %d..%d", s.Start, s.End)
	}
	if s, code := reserve("18446744073709551615"); code == 200 {
		t.Errorf("request for 2^64-1 labels acknowledged with span %d..%d", s.Start, s.End)
	}
	next, code := reserve("1")
	if code != 200 {
		t.Fatalf("reserving 1 label: status %d", code)
	}
	if next.Start <= first.End {
		t.Fatalf("label %d issued again: the first request already handed out %d..%d", next.Start, first.Start, first.End)
	}
}
