//go:build badger

package labelmap

import (
	"sync"
	"testing"

	"github.com/janelia-flyem/dvid/datatype/common/labels"
	"github.com/janelia-flyem/dvid/dvid"
	"github.com/janelia-flyem/dvid/server"
)

// Witness for Data.updateMaxLabel#assert / Data.updateBlockMaxLabel#assert (C12, C11): the current maximum
// is compared under the read lock, the lock is dropped, and the new value is stored under the write lock
// without looking again.  Concurrent ingests (storeBlocks starts one goroutine per block) can therefore
// LOWER the recorded maximum label, and the next NewLabel re-issues a label that is already in use.
func TestVerifWitnessMaxLabelNeverDecreases(t *testing.T) {
	if err := server.OpenTest(); err != nil {
		t.Fatalf("can't open test server: %v\n", err)
	}
	defer server.CloseTest()
	uuid, v := initTestRepo()
	var config dvid.Config
	server.CreateTestInstance(t, uuid, "labelmap", "labels", config)
	d, err := GetByUUIDName(uuid, "labels")
	if err != nil {
		t.Fatal(err)
	}
	const n = 64
	base := uint64(0)
	for round := 0; round < 200; round++ {
		start := make(chan struct{})
		var wg sync.WaitGroup
		for i := 1; i <= n; i++ {
			wg.Add(1)
			go func(label uint64) {
				defer wg.Done()
				<-start
				if label%2 == 0 {
					d.updateMaxLabel(v, label)
				} else {
					d.updateBlockMaxLabel(v, &labels.Block{Labels: []uint64{label}})
				}
			}(base + uint64(i))
		}
		close(start)
		wg.Wait()
		base += n
		d.mlMu.RLock()
		got := d.MaxLabel[v]
		d.mlMu.RUnlock()
		if got != base {
			t.Fatalf("round %d: labels up to %d are in use but the recorded max label is %d: the next new label would be issued twice", round, base, got)
		}
	}
}

// Witness for Data.SetNextLabelStart#lockset.write:d.NextLabel (C12, C11): the RPC command set-nextlabel
// wrote d.NextLabel without mlMu while newLabel increments it under mlMu. Run with -race.
func TestVerifWitnessSetNextLabelStartRace(t *testing.T) {
	if err := server.OpenTest(); err != nil {
		t.Fatalf("can't open test server: %v\n", err)
	}
	defer server.CloseTest()
	uuid, v := initTestRepo()
	var config dvid.Config
	server.CreateTestInstance(t, uuid, "labelmap", "labels", config)
	d, err := GetByUUIDName(uuid, "labels")
	if err != nil {
		t.Fatal(err)
	}
	var wg sync.WaitGroup
	wg.Add(2)
	go func() {
		defer wg.Done()
		for i := 0; i < 200; i++ {
			d.SetNextLabelStart(uint64(1000 * (i + 1)))
		}
	}()
	go func() {
		defer wg.Done()
		for i := 0; i < 200; i++ {
			d.newLabel(v)
		}
	}()
	wg.Wait()
}
