//go:build badger

package labelmap

import (
	"bytes"
	"encoding/binary"
	"encoding/json"
	"fmt"
	"testing"

	"github.com/janelia-flyem/dvid/datatype/common/downres"
	"github.com/janelia-flyem/dvid/dvid"
	"github.com/janelia-flyem/dvid/server"
)

// Witness for the failing obligations Data.sortByBlockCoord#assert1/2 and Data.partitionPoints#assert1/2
// (C08: point lookups agree with a scan of the stored voxels): the multi-point lookup split a voxel
// coordinate into block and in-block offset with Go's truncating / and %, so for negative coordinates
// it looked in the wrong block at a negative offset. GET .../label/<pt> (floor division) and the
// voxels read back by GET .../raw are right; GET .../labels with the same points was not.
// Run with: go test -tags badger -run TestVerifWitnessLabelsNegativePoints ./datatype/labelmap
func TestVerifWitnessLabelsNegativePoints(t *testing.T) {
	if err := server.OpenTest(); err != nil {
		t.Fatalf("can't open test server: %v\n", err)
	}
	defer server.CloseTest()

	uuid, _ := initTestRepo()
	server.CreateTestInstance(t, uuid, "labelmap", "labels", dvid.Config{})

	// a 128^3 volume at offset (-64,-64,-64): every voxel gets a label that encodes its 16^3 cell
	const n = 128
	data := make([]byte, n*n*n*8)
	label := func(x, y, z int32) uint64 {
		return uint64(1 + (x+64)/16 + 8*((y+64)/16) + 64*((z+64)/16))
	}
	i := 0
	for z := int32(-64); z < 64; z++ {
		for y := int32(-64); y < 64; y++ {
			for x := int32(-64); x < 64; x++ {
				binary.LittleEndian.PutUint64(data[i:i+8], label(x, y, z))
				i += 8
			}
		}
	}
	url := fmt.Sprintf("%snode/%s/labels/raw/0_1_2/%d_%d_%d/-64_-64_-64", server.WebAPIPath, uuid, n, n, n)
	server.TestHTTP(t, "POST", url, bytes.NewBuffer(data))
	if err := downres.BlockOnUpdating(uuid, "labels"); err != nil {
		t.Fatalf("Error blocking on sync of labels: %v\n", err)
	}

	pts := [][3]int32{{-3, -5, -7}, {-64, -64, -64}, {-1, 10, 20}, {5, -17, 40}, {30, 31, -33}, {7, 8, 9}}
	body, _ := json.Marshal(pts)
	resp := server.TestHTTPResponse(t, "GET", fmt.Sprintf("%snode/%s/labels/labels", server.WebAPIPath, uuid), bytes.NewBuffer(body))
	if resp.Code != 200 {
		t.Fatalf("GET labels for in-volume points with negative coordinates answered %d: %s", resp.Code, resp.Body.String())
	}
	var got []uint64
	if err := json.Unmarshal(resp.Body.Bytes(), &got); err != nil {
		t.Fatalf("bad response %q: %v", resp.Body.String(), err)
	}
	if len(got) != len(pts) {
		t.Fatalf("got %d labels for %d points", len(got), len(pts))
	}
	for k, p := range pts {
		want := label(p[0], p[1], p[2])
		single := server.TestHTTP(t, "GET", fmt.Sprintf("%snode/%s/labels/label/%d_%d_%d", server.WebAPIPath, uuid, p[0], p[1], p[2]), nil)
		if got[k] != want {
			t.Errorf("labels: point %v has label %d, stored voxel is %d (single-point lookup says %s)", p, got[k], want, string(single))
		}
	}
}
