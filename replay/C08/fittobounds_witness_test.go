package labels

import (
	"testing"

	"github.com/janelia-flyem/dvid/datatype/common/proto"
	"github.com/janelia-flyem/dvid/dvid"
)

// Witness for the failing obligations Index.FitToBounds#ensures2 / #inv.loop1.preserved.1 (C08):
// after FitToBounds(bounds) the index must hold exactly the blocks that were present and lie
// inside the bounds.  Before the fix the function deleted the blocks INSIDE the bounds, kept the
// ones outside, and stopped at the first block beyond maxz in (random) map iteration order.
func TestVerifWitnessFitToBounds(t *testing.T) {
	mk := func() *Index {
		idx := new(Index)
		idx.Blocks = map[uint64]*proto.SVCount{}
		for _, p := range [][3]int32{{0, 0, 0}, {1, 0, 0}, {5, 0, 0}, {1, 1, 9}} {
			idx.Blocks[EncodeBlockIndex(p[0], p[1], p[2])] = &proto.SVCount{Counts: map[uint64]uint32{7: 1}}
		}
		return idx
	}
	var bounds dvid.OptionalBounds
	bounds.SetMinX(1)
	bounds.SetMaxX(3)
	bounds.SetMaxZ(4)
	idx := mk()
	if err := idx.FitToBounds(&bounds); err != nil {
		t.Fatal(err)
	}
	want := map[uint64]bool{EncodeBlockIndex(1, 0, 0): true}
	for k := range mk().Blocks {
		_, got := idx.Blocks[k]
		if got != want[k] {
			x, y, z := DecodeBlockIndex(k)
			t.Errorf("block (%d,%d,%d): present after FitToBounds = %v, want %v", x, y, z, got, want[k])
		}
	}
}
