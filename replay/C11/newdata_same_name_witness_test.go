//go:build badger

package keyvalue

import (
	"fmt"
	"sync"
	"testing"

	"github.com/janelia-flyem/dvid/datastore"
	"github.com/janelia-flyem/dvid/dvid"
	"github.com/janelia-flyem/dvid/server"
)

// Witness for the failing obligation repoManager.newData#assert1 (C11, C06): the "only one data
// instance per name in a repo" test ran under the repo's READ lock, the lock was dropped, and the
// name was registered later under a separate write lock. Concurrent requests to create an instance
// with the same name all passed the test and were all acknowledged; the later registrations
// overwrote the earlier ones, whose instances (and everything a client then wrote to them) became
// unreachable by name.
// Run with: go test -tags badger -run TestVerifWitnessNewDataSameName ./datatype/keyvalue
func TestVerifWitnessNewDataSameName(t *testing.T) {
	if err := server.OpenTest(); err != nil {
		t.Fatalf("can't open test server: %v\n", err)
	}
	defer server.CloseTest()

	uuid, _ := initTestRepo()
	const n = 8
	for round := 0; round < 20; round++ {
		name := dvid.InstanceName(fmt.Sprintf("dup%d", round))
		var wg sync.WaitGroup
		var mu sync.Mutex
		ok := 0
		start := make(chan struct{})
		for i := 0; i < n; i++ {
			wg.Add(1)
			go func() {
				defer wg.Done()
				<-start
				if _, err := datastore.NewData(uuid, kvtype, name, dvid.NewConfig()); err == nil {
					mu.Lock()
					ok++
					mu.Unlock()
				}
			}()
		}
		close(start)
		wg.Wait()
		if ok != 1 {
			t.Fatalf("round %d: %d of %d concurrent requests to create instance %q were acknowledged; want exactly 1", round, ok, n, name)
		}
	}
}
