//go:build badger

package datastore

import (
	"sync"
	"testing"
)

// Witness for the failing obligation repoManager.newVersion#lockset.write:node.children (C11):
// the sibling-branch check and the append to node.children ran under the parent's READ lock, so
// concurrent requests for a new version on the same parent and branch all passed the check.
// Run with: go test -tags badger -race -run TestVerifWitnessNewVersionSameBranch ./datastore
func TestVerifWitnessNewVersionSameBranch(t *testing.T) {
	OpenTest()
	defer CloseTest()

	root, err := NewRepo("alias", "desc", nil, "")
	if err != nil {
		t.Fatal(err)
	}
	if err := Commit(root, "", nil); err != nil {
		t.Fatal(err)
	}
	const n = 8
	for round := 0; round < 20; round++ {
		parent := root
		if round > 0 {
			// new committed parent for each round
			p, err := NewVersion(root, "round", "b"+string(rune('a'+round)), nil)
			if err != nil {
				t.Fatal(err)
			}
			if err := Commit(p, "", nil); err != nil {
				t.Fatal(err)
			}
			parent = p
		}
		var wg sync.WaitGroup
		var mu sync.Mutex
		ok := 0
		start := make(chan struct{})
		for i := 0; i < n; i++ {
			wg.Add(1)
			go func() {
				defer wg.Done()
				<-start
				if _, err := NewVersion(parent, "child", "", nil); err == nil {
					mu.Lock()
					ok++
					mu.Unlock()
				}
			}()
		}
		close(start)
		wg.Wait()
		if ok != 1 {
			t.Fatalf("round %d: %d of %d concurrent NewVersion requests on one parent and the same branch were acknowledged; want exactly 1", round, ok, n)
		}
	}
}
