//go:build badger

package labelmap

import (
	"sync"
	"testing"
	"time"

	"github.com/janelia-flyem/dvid/datatype/common/labels"
	"github.com/janelia-flyem/dvid/datatype/common/proto"
	"github.com/janelia-flyem/dvid/dvid"
	"github.com/janelia-flyem/dvid/server"
)

// Witness for Data.MergeLabels#assert (C11): the target body's index is read (GetLabelIndex, shard read
// lock released on return), changed in memory and written back (PutLabelIndex) in separate critical
// sections, so simultaneous merges of different bodies into one target each start from the same stored
// index and the last write wins: acknowledged merges disappear from the target's index.
func TestVerifWitnessConcurrentMergesIntoOneTarget(t *testing.T) {
	if err := server.OpenTest(); err != nil {
		t.Fatalf("can't open test server: %v\n", err)
	}
	defer server.CloseTest()
	uuid, v := initTestRepo()
	var config dvid.Config
	server.CreateTestInstance(t, uuid, "labelmap", "labels", config)
	d, err := GetByUUIDName(uuid, "labels")
	if err != nil {
		t.Fatal(err)
	}
	info := dvid.ModInfo{User: "tester", App: "verif", Time: time.Now().Format(time.RFC3339)}
	const requests = 12
	const vox = 10
	for round := 0; round < 6; round++ {
		target := uint64(1000 * (round + 1))
		mk := func(label uint64, block uint64) {
			idx := new(labels.Index)
			idx.Label = label
			idx.Blocks = map[uint64]*proto.SVCount{block: {Counts: map[uint64]uint32{label: vox}}}
			if err := PutLabelIndex(d, v, label, idx); err != nil {
				t.Fatal(err)
			}
		}
		if _, err := d.updateMaxLabel(v, target+requests+1); err != nil {
			t.Fatal(err)
		}
		mk(target, labels.EncodeBlockIndex(0, 0, int32(round)))
		for i := 1; i <= requests; i++ {
			mk(target+uint64(i), labels.EncodeBlockIndex(int32(i), 0, int32(round)))
		}
		errs := make([]error, requests+1)
		start := make(chan struct{})
		var wg sync.WaitGroup
		for i := 1; i <= requests; i++ {
			wg.Add(1)
			go func(i int) {
				defer wg.Done()
				op := labels.MergeOp{Target: target, Merged: labels.Set{target + uint64(i): struct{}{}}}
				<-start
				_, errs[i] = d.MergeLabels(v, op, info)
			}(i)
		}
		close(start)
		wg.Wait()
		acked := 0
		for i := 1; i <= requests; i++ {
			if errs[i] == nil {
				acked++
			}
		}
		tidx, err := GetLabelIndex(d, v, target, false)
		if err != nil || tidx == nil {
			t.Fatalf("round %d: no target index: %v", round, err)
		}
		want := uint64(vox * (acked + 1))
		if got := tidx.NumVoxels(); got != want {
			t.Fatalf("round %d: %d merges into body %d were acknowledged, its index holds %d voxels, want %d (acknowledged merges were lost)", round, acked, target, got, want)
		}
	}
}
