//go:build badger

package datastore

import "testing"

// Witness for repoManager.deleteRepo#lockset.loop2 (C11, C20): when a version of the repo has no entry in
// versionToUUID the loop released idMutex and went on; the next iteration then ran without the mutex and
// the Unlock after the loop hit an unlocked mutex: "fatal error: sync: Unlock of unlocked RWMutex" - the
// whole server process dies (a fatal error cannot be recovered).
func TestVerifWitnessDeleteRepoUnlock(t *testing.T) {
	OpenTest()
	defer CloseTest()
	root, err := NewRepo("alias", "desc", nil, "")
	if err != nil {
		t.Fatal(err)
	}
	if err := Commit(root, "", nil); err != nil {
		t.Fatal(err)
	}
	child, err := NewVersion(root, "", "", nil)
	if err != nil {
		t.Fatal(err)
	}
	// make the metadata inconsistent in the way the code anticipates ("Found version id %d with no corresponding UUID")
	v, err := manager.versionFromUUID(child)
	if err != nil {
		t.Fatal(err)
	}
	manager.idMutex.Lock()
	delete(manager.versionToUUID, v)
	manager.idMutex.Unlock()
	if err := manager.deleteRepo(root, ""); err != nil {
		t.Fatal(err)
	}
}
