//go:build badger

package neuronjson

import (
	"encoding/json"
	"fmt"
	"sync"
	"testing"

	"github.com/janelia-flyem/dvid/datastore"
	"github.com/janelia-flyem/dvid/dvid"
	"github.com/janelia-flyem/dvid/server"
)

// Witness for Data.storeAndUpdate#assert (C11): a field update (replace=false) reads the stored annotation,
// merges the posted fields into it and writes the result back with no mutual exclusion, so simultaneous
// updates of DIFFERENT fields of one body are each acknowledged and all but one are lost.
func TestVerifWitnessConcurrentFieldUpdates(t *testing.T) {
	if err := server.OpenTest(); err != nil {
		t.Fatalf("can't open test server: %v\n", err)
	}
	defer server.CloseTest()
	uuid, versionID := initTestRepo()
	config := dvid.NewConfig()
	dataservice, err := datastore.NewData(uuid, jsontype, "witness", config)
	if err != nil {
		t.Fatal(err)
	}
	d := dataservice.(*Data)
	const n = 16
	for round := 0; round < 20; round++ {
		key := fmt.Sprintf("%d", 1000+round)
		ctx := datastore.NewVersionedCtx(dataservice, versionID)
		ctx.User = "tester"
		if err := d.PutData(ctx, key, []byte(fmt.Sprintf(`{"bodyid": %s, "base": "x"}`, key)), nil, true); err != nil {
			t.Fatal(err)
		}
		start := make(chan struct{})
		var wg sync.WaitGroup
		errs := make([]error, n)
		for i := 0; i < n; i++ {
			wg.Add(1)
			go func(i int) {
				defer wg.Done()
				c := datastore.NewVersionedCtx(dataservice, versionID)
				c.User = "tester"
				<-start
				errs[i] = d.PutData(c, key, []byte(fmt.Sprintf(`{"bodyid": %s, "f%d": %d}`, key, i, i)), nil, false)
			}(i)
		}
		close(start)
		wg.Wait()
		got, found, err := d.GetData(ctx, key, nil, ShowBasic)
		if err != nil || !found {
			t.Fatalf("round %d: %v found=%v", round, err, found)
		}
		var obj map[string]interface{}
		if err := json.Unmarshal(got, &obj); err != nil {
			t.Fatal(err)
		}
		for i := 0; i < n; i++ {
			if errs[i] != nil {
				continue
			}
			if _, ok := obj[fmt.Sprintf("f%d", i)]; !ok {
				t.Fatalf("round %d: update of field f%d was acknowledged but the stored annotation lacks it: %s", round, i, got)
			}
		}
	}
}
