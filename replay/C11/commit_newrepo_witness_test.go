//go:build badger

package datastore

import (
	"sync"
	"testing"
)

// Witness for repoManager.commit#lockset.read:node.locked (C11): the "already committed" check ran
// before the node's lock was taken, so concurrent commits of one node were all acknowledged.
func TestVerifWitnessConcurrentCommit(t *testing.T) {
	OpenTest()
	defer CloseTest()
	root, err := NewRepo("alias", "desc", nil, "")
	if err != nil {
		t.Fatal(err)
	}
	cur := root
	for round := 0; round < 20; round++ {
		const n = 8
		var wg sync.WaitGroup
		var mu sync.Mutex
		ok := 0
		start := make(chan struct{})
		for i := 0; i < n; i++ {
			wg.Add(1)
			go func() {
				defer wg.Done()
				<-start
				if err := Commit(cur, "note", nil); err == nil {
					mu.Lock()
					ok++
					mu.Unlock()
				}
			}()
		}
		close(start)
		wg.Wait()
		if ok != 1 {
			t.Fatalf("round %d: %d of %d concurrent commits of one node were acknowledged; want exactly 1", round, ok, n)
		}
		if cur, err = NewVersion(cur, "", "", nil); err != nil {
			t.Fatal(err)
		}
	}
}

// Witness for repoManager.newRepo#lockset.write:m.versionToUUID / m.uuidToVersion (C11): newRepo wrote
// the id maps holding repoMutex while every reader holds idMutex. Run with -race: the detector reports
// the write in newRepo against the read in versionFromUUID (without -race the Go runtime may abort with
// "concurrent map read and map write").
func TestVerifWitnessNewRepoIDMaps(t *testing.T) {
	OpenTest()
	defer CloseTest()
	root, err := NewRepo("alias", "desc", nil, "")
	if err != nil {
		t.Fatal(err)
	}
	stop := make(chan struct{})
	var wg sync.WaitGroup
	wg.Add(1)
	go func() {
		defer wg.Done()
		for {
			select {
			case <-stop:
				return
			default:
				if _, err := VersionFromUUID(root); err != nil {
					t.Error(err)
					return
				}
			}
		}
	}()
	for i := 0; i < 20; i++ {
		if _, err := NewRepo("alias", "desc", nil, ""); err != nil {
			t.Fatal(err)
		}
	}
	close(stop)
	wg.Wait()
}
