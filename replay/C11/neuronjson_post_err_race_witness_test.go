//go:build badger

package neuronjson

import (
	"fmt"
	"strings"
	"testing"

	"github.com/janelia-flyem/dvid/dvid"
	"github.com/janelia-flyem/dvid/server"
)

// Witness for the failing obligation neuronjson.Data.ServeHTTP#gorace:err@go func() { (C11, C20): the
// goroutine that reports a POST key to Kafka assigned the HANDLER's `err` variable, concurrently with the
// handler's own `err = d.PutData(...)` and `if err != nil`: a failed write could be acknowledged (the
// goroutine stores nil) or a successful one answered 400. The race detector reports it on every POST.
// Run with: go test -tags badger -race -run TestVerifWitnessPostKeyErrRace ./datatype/neuronjson
func TestVerifWitnessPostKeyErrRace(t *testing.T) {
	if err := server.OpenTest(); err != nil {
		t.Fatalf("can't open test server: %v\n", err)
	}
	defer server.CloseTest()

	uuid, _ := initTestRepo()
	server.CreateTestInstance(t, uuid, "neuronjson", "nj", dvid.Config{})
	for i := 1; i <= 40; i++ {
		url := fmt.Sprintf("%snode/%s/nj/key/%d?u=tester", server.WebAPIPath, uuid, i)
		server.TestHTTP(t, "POST", url, strings.NewReader(fmt.Sprintf(`{"bodyid": %d, "a": %d}`, i, i)))
	}
}
