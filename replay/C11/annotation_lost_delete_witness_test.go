//go:build badger

package annotation

import (
	"bytes"
	"encoding/json"
	"sync"
	"testing"

	"github.com/janelia-flyem/dvid/datastore"
	"github.com/janelia-flyem/dvid/dvid"
	"github.com/janelia-flyem/dvid/server"
)

// Witness for the OPEN finding Data.DeleteElement#assert1 (C11; also StoreElements, MoveElement): every
// edit reads a block's element list, changes it and writes it back, and the instance lock around this is
// commented out in the source ("// d.Lock()").  Simultaneous deletions of different elements of one block
// are all acknowledged, and deleted elements reappear.
func TestVerifWitnessConcurrentElementDeletes(t *testing.T) {
	if err := server.OpenTest(); err != nil {
		t.Fatalf("can't open test server: %v\n", err)
	}
	defer server.CloseTest()
	uuid, v := initTestRepo()
	config := dvid.NewConfig()
	dataservice, err := datastore.NewData(uuid, syntype, "witness", config)
	if err != nil {
		t.Fatal(err)
	}
	d := dataservice.(*Data)
	ctx := datastore.NewVersionedCtx(d, v)
	const n = 16
	for round := 0; round < 10; round++ {
		var elems Elements
		for i := 0; i < n; i++ {
			elems = append(elems, Element{ElementNR: ElementNR{Pos: dvid.Point3d{int32(i + 1), int32(round + 1), 1}, Kind: PostSyn}})
		}
		js, _ := json.Marshal(elems)
		if err := d.StoreElements(ctx, bytes.NewReader(js), true); err != nil {
			t.Fatal(err)
		}
		start := make(chan struct{})
		var wg sync.WaitGroup
		errs := make([]error, n)
		for i := 0; i < n; i++ {
			wg.Add(1)
			go func(i int) {
				defer wg.Done()
				<-start
				errs[i] = d.DeleteElement(ctx, elems[i].Pos, true)
			}(i)
		}
		close(start)
		wg.Wait()
		tk := NewBlockTKey(dvid.ChunkPoint3d{0, 0, 0})
		left, err := getElements(ctx, tk)
		if err != nil {
			t.Fatal(err)
		}
		for i := 0; i < n; i++ {
			if errs[i] != nil {
				continue
			}
			for _, e := range left {
				if e.Pos.Equals(elems[i].Pos) {
					t.Fatalf("round %d: deletion of element %s was acknowledged but the element is still stored (%d elements left in the block)", round, e.Pos, len(left))
				}
			}
		}
	}
}
