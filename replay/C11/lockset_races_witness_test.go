//go:build badger

package datastore

import (
	"sync"
	"testing"
)

// Witnesses for the open C11 lockset findings (see /verif/known_findings.json). Each subtest runs
// the unguarded access concurrently with a guarded writer of the same field; run with
//   go test -tags badger -race -run TestVerifWitnessLocksetRaces ./datastore
// and the race detector reports the pair (the test bodies themselves assert nothing).
func TestVerifWitnessLocksetRaces(t *testing.T) {
	OpenTest()
	defer CloseTest()
	root, err := NewRepo("alias", "desc", nil, "")
	if err != nil {
		t.Fatal(err)
	}
	if err := Commit(root, "", nil); err != nil {
		t.Fatal(err)
	}
	r, err := manager.repoFromUUID(root)
	if err != nil {
		t.Fatal(err)
	}
	against := func(name string, writer func(i int), reader func()) {
		t.Run(name, func(t *testing.T) {
			stop := make(chan struct{})
			var wg sync.WaitGroup
			wg.Add(1)
			go func() {
				defer wg.Done()
				for {
					select {
					case <-stop:
						return
					default:
						reader()
					}
				}
			}()
			for i := 0; i < 30; i++ {
				writer(i)
			}
			close(stop)
			wg.Wait()
		})
	}
	newRepo := func(int) {
		if _, err := NewRepo("a", "d", nil, ""); err != nil {
			t.Error(err)
		}
	}
	// putNewIDs reads repoID/versionID/instanceID without idMutex (writers: newUUID, newRepoID)
	against("putNewIDs", newRepo, func() { manager.putNewIDs() })
	// getBranchVersion reads repoToUUID, repos, uuidToVersion without their mutexes
	against("getBranchVersion", newRepo, func() { manager.getBranchVersion(root, "master") })
	against("getBranchVersionNil", newRepo, func() { manager.getBranchVersion("", "master") })
	// MarshalJSON / types read len(repoToUUID) / range repoToUUID without idMutex
	against("MarshalJSON", newRepo, func() { MarshalJSON() })
	against("types", newRepo, func() { Types() })
	// getNodeNote reads node.note under the repo lock, setNodeNote writes it under the node lock
	against("getNodeNote", func(i int) { SetNodeNote(root, "note") }, func() { GetNodeNote(root) })
	// hideBranch deletes from versionToUUID/uuidToVersion holding repoMutex and the repo lock, not idMutex,
	// and rewrites node.children without the node lock
	against("hideBranch", func(i int) {
		name := "hide" + string(rune('a'+i))
		if _, err := NewVersion(root, "", name, nil); err != nil {
			t.Error(err)
			return
		}
		if err := HideBranch(root, name); err != nil {
			t.Error(err)
		}
	}, func() { VersionFromUUID(root); GetRepoJSON(root) })
	// repoT.MarshalJSON reads mutCurID/mutSavedID without mutMu (writer: newMutationID)
	against("repoMarshalJSON", func(int) { r.newMutationID() }, func() { r.MarshalJSON() })
}
