//go:build badger

package keyvalue

import (
	"fmt"
	"sync"
	"testing"

	"github.com/janelia-flyem/dvid/datastore"
	"github.com/janelia-flyem/dvid/dvid"
	"github.com/janelia-flyem/dvid/server"
)

// Witness for the failing obligation repoManager.renameDataByName#assert1 (C11, C06): the name checks ran
// under the repo READ lock, which was released before the re-keying under a separate write lock. Two
// concurrent renames of different instances to the same new name were both acknowledged (the second
// replaced the first instance in the name map: it became unreachable), and two concurrent renames of the
// SAME instance made the second one re-key a name that was already gone - a nil entry, and a panic in
// SetName.
// Run with: go test -tags badger -run TestVerifWitnessRenameDataRace ./datatype/keyvalue
func TestVerifWitnessRenameDataRace(t *testing.T) {
	if err := server.OpenTest(); err != nil {
		t.Fatalf("can't open test server: %v\n", err)
	}
	defer server.CloseTest()

	uuid, _ := initTestRepo()
	const n = 8
	for round := 0; round < 100; round++ {
		for i := 0; i < n; i++ {
			name := dvid.InstanceName(fmt.Sprintf("r%d_src%d", round, i))
			if _, err := datastore.NewData(uuid, kvtype, name, dvid.NewConfig()); err != nil {
				t.Fatal(err)
			}
		}
		target := dvid.InstanceName(fmt.Sprintf("r%d_target", round))
		var wg sync.WaitGroup
		var mu sync.Mutex
		ok := 0
		start := make(chan struct{})
		for i := 0; i < n; i++ {
			wg.Add(1)
			go func(i int) {
				defer wg.Done()
				defer func() {
					if r := recover(); r != nil {
						t.Errorf("round %d: rename panicked: %v", round, r)
					}
				}()
				<-start
				// half of the requests rename distinct instances to one name, the other half rename the same instance
				src := dvid.InstanceName(fmt.Sprintf("r%d_src%d", round, i%(n/2)))
				err := datastore.RenameData(uuid, src, target, "foobar")
				mu.Lock()
				if err == nil {
					ok++
				} else if err != datastore.ErrExistingDataName && err != datastore.ErrInvalidDataName {
					t.Errorf("round %d: unexpected error: %v", round, err)
				}
				mu.Unlock()
			}(i)
		}
		close(start)
		wg.Wait()
		if ok != 1 {
			t.Fatalf("round %d: %d of %d concurrent renames to %q were acknowledged; want exactly 1", round, ok, n, target)
		}
	}
}
