//go:build badger

package server

import (
	"testing"
	"time"

	"github.com/janelia-flyem/dvid/datastore"
	"github.com/janelia-flyem/dvid/dvid"
)

// Witness for the failing obligation server.handleCommand#gorace:err@go func() { (C11; five rpc commands:
// migrate, migrate-batch, copy, transfer-data, push): the background goroutine that does the work assigned
// handleCommand's NAMED RESULT err - after handleCommand had returned it to the rpc layer. The race
// detector reports the unsynchronised write against the read at return.
// Run with: go test -tags badger -race -run TestVerifWitnessRPCCopyErrRace ./server
func TestVerifWitnessRPCCopyErrRace(t *testing.T) {
	OpenTest()
	defer CloseTest()

	uuid, _ := datastore.NewTestRepo()
	for i := 0; i < 20; i++ {
		cmd := &datastore.Request{Command: dvid.Command{"repo", string(uuid), "copy", "nosuchinstance", "target"}}
		if _, err := handleCommand(cmd); err != nil {
			t.Fatalf("copy command refused: %v", err)
		}
	}
	time.Sleep(300 * time.Millisecond) // let the background goroutines report their error
}
