package dvid

import "testing"

// Witness for Extents.AdjustIndices#ensures1 (C17): a write that lowers the minimum block index but
// stays below the maximum must be reported as a change, otherwise the caller (labelmap PutLabels /
// putVoxels) never persists the new extents and the advertised extents no longer cover the data
// after a restart.
func TestVerifWitnessAdjustIndices(t *testing.T) {
	var ext Extents
	if !ext.AdjustIndices(&IndexZYX{5, 5, 5}, &IndexZYX{9, 9, 9}) {
		t.Fatal("first adjustment must report a change")
	}
	// extends the minimum only
	changed := ext.AdjustIndices(&IndexZYX{1, 1, 1}, &IndexZYX{6, 6, 6})
	if ext.MinIndex.Value(0) != 1 {
		t.Fatalf("minimum not updated: %v", ext.MinIndex)
	}
	if !changed {
		t.Fatalf("MinIndex changed to %v but AdjustIndices reported no change", ext.MinIndex)
	}
}
