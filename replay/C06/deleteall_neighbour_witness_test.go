package keyvalue

import (
	"fmt"
	"strings"
	"testing"
	"time"

	"github.com/janelia-flyem/dvid/datastore"
	"github.com/janelia-flyem/dvid/dvid"
	"github.com/janelia-flyem/dvid/server"
)

// Witness for BadgerDB.DeleteAll#assert (C06): the keys handed to the write batch must not alias the
// iterator's key buffer. Two instances share a store; deleting A must remove exactly A's keys and leave
// every key of B readable.
func TestVerifWitnessDeleteAllNeighbour(t *testing.T) {
	if err := server.OpenTest(); err != nil {
		t.Fatalf("can't open test server: %v\n", err)
	}
	defer server.CloseTest()

	uuid, v := initTestRepo()
	config := dvid.NewConfig()
	mk := func(name string, n int) *Data {
		ds, err := datastore.NewData(uuid, kvtype, dvid.InstanceName(name), config)
		if err != nil {
			t.Fatalf("creating instance %s: %v", name, err)
		}
		d := ds.(*Data)
		ctx := datastore.NewVersionedCtx(d, v)
		for i := 0; i < n; i++ {
			if err := d.PutData(ctx, fmt.Sprintf("%skey%d", name, i), []byte(fmt.Sprintf("%svalue%d", name, i))); err != nil {
				t.Fatalf("put into %s: %v", name, err)
			}
		}
		return d
	}
	a := mk("wa", 3)
	b := mk("wb", 4)
	ctxA := datastore.NewVersionedCtx(a, v)
	ctxB := datastore.NewVersionedCtx(b, v)

	if err := datastore.DeleteDataByName(uuid, "wa", "foobar"); err != nil {
		t.Fatalf("delete of instance A: %v", err)
	}
	deadline := time.Now().Add(20 * time.Second)
	for done := false; !done; {
		lines, err := datastore.GetRepoLog(uuid)
		if err != nil {
			t.Fatalf("repo log: %v", err)
		}
		for _, line := range lines {
			if strings.Contains(line, "Delete data instance 'wa'") {
				done = true
			}
		}
		if !done {
			if time.Now().After(deadline) {
				t.Fatalf("instance A deletion not finished after 20s")
			}
			time.Sleep(20 * time.Millisecond)
		}
	}
	for i := 0; i < 4; i++ {
		val, found, err := b.GetData(ctxB, fmt.Sprintf("wbkey%d", i))
		if err != nil || !found || string(val) != fmt.Sprintf("wbvalue%d", i) {
			t.Errorf("instance B key wbkey%d after deleting instance A: found=%v val=%q err=%v", i, found, val, err)
		}
	}
	for i := 0; i < 3; i++ {
		if _, found, _ := a.GetData(ctxA, fmt.Sprintf("wakey%d", i)); found {
			t.Errorf("instance A key wakey%d still stored after the instance was deleted", i)
		}
	}
}
