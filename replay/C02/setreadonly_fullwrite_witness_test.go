//go:build badger

package keyvalue

import (
	"bytes"
	"fmt"
	"net/http"
	"testing"

	"github.com/janelia-flyem/dvid/datastore"
	"github.com/janelia-flyem/dvid/dvid"
	"github.com/janelia-flyem/dvid/server"
)

// Witness for the failing obligation server.SetReadOnly#ensures2 (C02: committed versions are immutable
// unless the server was STARTED in full-write mode): SetReadOnly(false) - called when the transfer-data
// RPC finishes - set fullwrite = true, so from then on every committed version accepted writes.
// Run with: go test -tags badger -run TestVerifWitnessLeavingReadOnlyIsNotFullWrite ./datatype/keyvalue
func TestVerifWitnessLeavingReadOnlyIsNotFullWrite(t *testing.T) {
	if err := server.OpenTest(); err != nil {
		t.Fatalf("can't open test server: %v\n", err)
	}
	defer server.CloseTest()

	uuid, _ := initTestRepo()
	server.CreateTestInstance(t, uuid, "keyvalue", "kv", dvid.Config{})
	url := fmt.Sprintf("%snode/%s/kv/key/a", server.WebAPIPath, uuid)
	server.TestHTTP(t, "POST", url, bytes.NewBufferString("committed value"))
	if err := datastore.Commit(uuid, "", nil); err != nil {
		t.Fatal(err)
	}

	// what the transfer-data RPC does around the transfer
	server.SetReadOnly(true)
	server.SetReadOnly(false)

	resp := server.TestHTTPResponse(t, "POST", url, bytes.NewBufferString("changed after commit"))
	got := server.TestHTTP(t, "GET", url, nil)
	if resp.Code == http.StatusOK || string(got) != "committed value" {
		t.Fatalf("after SetReadOnly(true); SetReadOnly(false) a POST to a committed version answered %d and the key reads %q", resp.Code, got)
	}
}
