//go:build badger

package keyvalue

import (
	"fmt"
	"strings"
	"testing"

	"github.com/janelia-flyem/dvid/datastore"
	"github.com/janelia-flyem/dvid/dvid"
	"github.com/janelia-flyem/dvid/server"
)

// Witness for BadgerDB.DeleteRange#ensures (C05, C01): the consumer loop of DeleteRange tested
// "KeyValue == nil" (end of range) BEFORE "error != nil".  The scanning goroutine reports a failed version
// resolution - and any iterator error - as {nil, err}, so the error was taken for the end of the range:
// DeleteRange returned success although it had stopped at the failing key and deleted nothing after it.
// Here key "a" has two unsuperseded values at a merge node (resolution fails), key "b" comes after it.
func TestVerifWitnessDeleteRangeReportsScanError(t *testing.T) {
	if err := server.OpenTest(); err != nil {
		t.Fatalf("can't open test server: %v\n", err)
	}
	defer server.CloseTest()
	uuid, _ := initTestRepo()
	dataservice, err := datastore.NewData(uuid, kvtype, "witness", dvid.NewConfig())
	if err != nil {
		t.Fatal(err)
	}
	data := dataservice.(*Data)
	keyreq := func(u dvid.UUID, key string) string {
		return fmt.Sprintf("%snode/%s/%s/key/%s", server.WebAPIPath, u, data.DataName(), key)
	}
	server.TestHTTP(t, "POST", keyreq(uuid, "b"), strings.NewReader("bee"))
	if err := datastore.Commit(uuid, "root", nil); err != nil {
		t.Fatal(err)
	}
	left, err := datastore.NewVersion(uuid, "left", "", nil)
	if err != nil {
		t.Fatal(err)
	}
	server.TestHTTP(t, "POST", keyreq(left, "a"), strings.NewReader("left"))
	if err := datastore.Commit(left, "left", nil); err != nil {
		t.Fatal(err)
	}
	right, err := datastore.NewVersion(uuid, "right", "rightbranch", nil)
	if err != nil {
		t.Fatal(err)
	}
	server.TestHTTP(t, "POST", keyreq(right, "a"), strings.NewReader("right"))
	if err := datastore.Commit(right, "right", nil); err != nil {
		t.Fatal(err)
	}
	merged, err := datastore.Merge([]dvid.UUID{left, right}, "merge", datastore.MergeConflictFree)
	if err != nil {
		t.Fatal(err)
	}
	v, err := datastore.VersionFromUUID(merged)
	if err != nil {
		t.Fatal(err)
	}
	ctx := datastore.NewVersionedCtx(data, v)
	db, err := datastore.GetOrderedKeyValueDB(data)
	if err != nil {
		t.Fatal(err)
	}
	first, _ := NewTKey("a")
	last, _ := NewTKey("z")
	derr := db.DeleteRange(ctx, first, last)
	// key b was in the range: after a SUCCESSFUL range delete it must be gone at this version
	if derr == nil {
		if _, found, _ := data.GetData(ctx, "b"); found {
			t.Fatalf("DeleteRange([a,z]) at the merge node returned success, but key b inside the range is still readable (the scan failed at the conflicted key a and the error was swallowed)")
		}
	}
}
