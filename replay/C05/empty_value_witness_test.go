//go:build badger

package keyvalue

import (
	"bytes"
	"fmt"
	"testing"

	"github.com/janelia-flyem/dvid/dvid"
	"github.com/janelia-flyem/dvid/server"
)

// Witness for the OPEN known finding Data.PutData#assert1 (C05: listings agree with point reads):
// a POST of a key with an empty value is acknowledged and stores an empty serialization; the store API
// reports an empty value like an absent key, so GET key/b answers 404 while HEAD key/b answers 200,
// the keys and keyrange listings contain "b" and keyrangevalues omits it.
// EXPECTED TO FAIL on the current tree (the finding is recorded, not repaired).
// Run with: go test -tags badger -run TestVerifWitnessEmptyValue ./datatype/keyvalue
func TestVerifWitnessEmptyValue(t *testing.T) {
	if err := server.OpenTest(); err != nil {
		t.Fatalf("can't open test server: %v\n", err)
	}
	defer server.CloseTest()
	uuid, _ := initTestRepo()
	server.CreateTestInstance(t, uuid, "keyvalue", "kv", dvid.Config{})
	base := fmt.Sprintf("%snode/%s/kv/", server.WebAPIPath, uuid)
	server.TestHTTP(t, "POST", base+"key/a", bytes.NewBuffer([]byte("x")))
	post := server.TestHTTPResponse(t, "POST", base+"key/b", bytes.NewBuffer([]byte{}))
	get := server.TestHTTPResponse(t, "GET", base+"key/b", nil)
	keys := string(server.TestHTTP(t, "GET", base+"keyrange/a/c", nil))
	listed := keys == `["a","b"]`
	if post.Code == 200 && listed != (get.Code == 200) {
		t.Fatalf("POST key/b with an empty value was acknowledged; keyrange lists %s but GET key/b answers %d", keys, get.Code)
	}
}
