//go:build !clustered && !gcloud
// +build !clustered,!gcloud

package datastore

// Witness for obligation repoManager.merge#ensures (a refused merge leaves everything as it was):
// merging a committed version with an UNcommitted one is answered with an error, but the graph has
// already gained an orphan child node and a version id has been consumed.

import (
	"testing"

	"github.com/janelia-flyem/dvid/dvid"
)

func TestVerifMergeRefusedMutates(t *testing.T) {
	OpenTest()
	defer CloseTest()

	root, err := NewRepo("merge test", "refused merge", nil, "")
	if err != nil {
		t.Fatal(err)
	}
	if err := Commit(root, "root", nil); err != nil {
		t.Fatal(err)
	}
	a, err := NewVersion(root, "a", "a", nil)
	if err != nil {
		t.Fatal(err)
	}
	b, err := NewVersion(root, "b", "b", nil)
	if err != nil {
		t.Fatal(err)
	}
	if err := Commit(a, "a done", nil); err != nil {
		t.Fatal(err)
	}
	// b stays open: the merge must be refused
	r, _ := manager.repoFromUUID(root)
	nodesBefore := len(r.dag.nodes)
	versionBefore := manager.versionID
	uuidsBefore := len(manager.uuidToVersion)

	_, err = Merge([]dvid.UUID{a, b}, "merge", MergeConflictFree)
	if err == nil {
		t.Fatal("merge with an uncommitted parent was accepted")
	}
	t.Logf("merge refused: %v", err)
	if len(r.dag.nodes) != nodesBefore || manager.versionID != versionBefore || len(manager.uuidToVersion) != uuidsBefore {
		t.Errorf("VERIF-WITNESS refused merge changed state: nodes %d -> %d, next version id %d -> %d, known uuids %d -> %d",
			nodesBefore, len(r.dag.nodes), versionBefore, manager.versionID, uuidsBefore, len(manager.uuidToVersion))
	}
}
