//go:build badger

package datastore

import (
	"testing"
)

// Witness for the failing obligation repoManager.newUUID#ensures1 (C07: every UUID names exactly one node):
// a new-version (or branch/tag) request that assigns a UUID which already names a version was accepted:
// the UUID was re-pointed to the new version id, so the old node - here the committed root with all its
// data - could no longer be reached by its UUID, and two version ids carried the same UUID.
// Run with: go test -tags badger -run TestVerifWitnessAssignedUUIDExists ./datastore
func TestVerifWitnessAssignedUUIDExists(t *testing.T) {
	OpenTest()
	defer CloseTest()

	root, err := NewRepo("alias", "desc", nil, "")
	if err != nil {
		t.Fatal(err)
	}
	rootV, err := VersionFromUUID(root)
	if err != nil {
		t.Fatal(err)
	}
	if err := Commit(root, "", nil); err != nil {
		t.Fatal(err)
	}
	child, err := NewVersion(root, "child", "", &root)
	if err == nil {
		t.Errorf("new version with the assigned UUID %s, which already names the root, was accepted (child %s)", root, child)
	}
	v, err := VersionFromUUID(root)
	if err != nil || v != rootV {
		t.Fatalf("UUID %s named version %d, now names version %d (err %v)", root, rootV, v, err)
	}
}
