//go:build badger

package server

import (
	"bytes"
	"encoding/json"
	"fmt"
	"testing"

	"github.com/janelia-flyem/dvid/datastore"
)

// Witness for the failing obligation postNodeNoteHandler#assert1 (C07, C20: a request answered with an
// error leaves everything as it was): POST .../note with a JSON body that has no "note" member was
// answered 400 - and then went on to overwrite the version's note with the empty string.
// Run with: go test -tags badger -run TestVerifWitnessNotePostWithoutValue ./server
func TestVerifWitnessNotePostWithoutValue(t *testing.T) {
	OpenTest()
	defer CloseTest()

	uuid, _ := datastore.NewTestRepo()
	url := fmt.Sprintf("%snode/%s/note", WebAPIPath, uuid)
	TestHTTP(t, "POST", url, bytes.NewBufferString(`{"note": "first note"}`))
	TestBadHTTP(t, "POST", url, bytes.NewBufferString(`{"nota": "typo in the member name"}`))
	var got struct {
		Note string `json:"note"`
	}
	if err := json.Unmarshal(TestHTTP(t, "GET", url, nil), &got); err != nil {
		t.Fatal(err)
	}
	if got.Note != "first note" {
		t.Fatalf("a POST answered with an error changed the note from %q to %q", "first note", got.Note)
	}
}
