//go:build badger

package annotation

import (
	"encoding/json"
	"fmt"
	"strings"
	"testing"

	"github.com/janelia-flyem/dvid/datastore"
	"github.com/janelia-flyem/dvid/dvid"
	"github.com/janelia-flyem/dvid/server"
)

// Witness for the failing obligation addTagDelta#nopanic.nilmap:td.erase[zyx] = struct{}{} (C20, C13):
// when a posted element drops a tag that another element of the same post (same block) carries, the
// per-tag delta for that tag was created by the "add" loop with a nil erase map, and recording the
// erasure wrote into the nil map. A well-formed POST .../elements was answered with an internal error
// (recovered panic) and the tag index kept the stale entry.
// Run with: go test -tags badger -run TestVerifWitnessAddTagDeltaNilMap ./datatype/annotation
func TestVerifWitnessAddTagDeltaNilMap(t *testing.T) {
	if err := server.OpenTest(); err != nil {
		t.Fatalf("can't open test server: %v\n", err)
	}
	defer server.CloseTest()

	uuid, _ := initTestRepo()
	config := dvid.NewConfig()
	dataservice, err := datastore.NewData(uuid, syntype, "mysynapses", config)
	if err != nil {
		t.Fatalf("Error creating new data instance: %v\n", err)
	}
	data := dataservice.(*Data)
	url := fmt.Sprintf("%snode/%s/%s/elements", server.WebAPIPath, uuid, data.DataName())

	post := func(elems Elements) {
		b, err := json.Marshal(elems)
		if err != nil {
			t.Fatal(err)
		}
		resp := server.TestHTTPResponse(t, "POST", url, strings.NewReader(string(b)))
		if resp.Code != 200 {
			t.Fatalf("well-formed POST of elements answered with status %d: %s", resp.Code, resp.Body.String())
		}
	}
	a := Element{ElementNR: ElementNR{Pos: dvid.Point3d{10, 10, 10}, Kind: PreSyn, Tags: []Tag{"T"}}}
	post(Elements{a})

	// re-post a without its tag, together with a new element b of the same block that carries the tag
	a.Tags = nil
	b := Element{ElementNR: ElementNR{Pos: dvid.Point3d{11, 10, 10}, Kind: PreSyn, Tags: []Tag{"T"}}}
	post(Elements{a, b})

	// the tag index must now hold b only
	tagURL := fmt.Sprintf("%snode/%s/%s/tag/T", server.WebAPIPath, uuid, data.DataName())
	var got Elements
	if err := json.Unmarshal(server.TestHTTP(t, "GET", tagURL, nil), &got); err != nil {
		t.Fatal(err)
	}
	if len(got) != 1 || !got[0].Pos.Equals(dvid.Point3d{11, 10, 10}) {
		t.Fatalf("tag T should list exactly the element at (11,10,10); got %v", got)
	}
}
