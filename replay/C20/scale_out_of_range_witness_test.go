//go:build badger

package labelmap

import (
	"bytes"
	"encoding/binary"
	"fmt"
	"testing"

	"github.com/janelia-flyem/dvid/datatype/common/downres"
	"github.com/janelia-flyem/dvid/dvid"
	"github.com/janelia-flyem/dvid/server"
)

// Witness for the failing obligation labelmap.getScale#assert1 (C20: out-of-range parameters are refused
// and leave stored data as it was): the scale query string was parsed as an int and truncated to uint8,
// so ?scale=256 aliased scale 0 (and 257 scale 1, ...). A POST raw with scale=256 - a level that does not
// exist - was acknowledged and overwrote the full-resolution voxels.
// Run with: go test -tags badger -run TestVerifWitnessScaleOutOfRange ./datatype/labelmap
func TestVerifWitnessScaleOutOfRange(t *testing.T) {
	if err := server.OpenTest(); err != nil {
		t.Fatalf("can't open test server: %v\n", err)
	}
	defer server.CloseTest()

	uuid, _ := initTestRepo()
	server.CreateTestInstance(t, uuid, "labelmap", "labels", dvid.Config{})

	const n = 64
	vol := func(label uint64) []byte {
		b := make([]byte, n*n*n*8)
		for i := 0; i < n*n*n; i++ {
			binary.LittleEndian.PutUint64(b[i*8:i*8+8], label)
		}
		return b
	}
	url := fmt.Sprintf("%snode/%s/labels/raw/0_1_2/%d_%d_%d/0_0_0", server.WebAPIPath, uuid, n, n, n)
	server.TestHTTP(t, "POST", url, bytes.NewBuffer(vol(5)))
	if err := downres.BlockOnUpdating(uuid, "labels"); err != nil {
		t.Fatal(err)
	}
	resp := server.TestHTTPResponse(t, "POST", url+"?scale=256&mutate=true", bytes.NewBuffer(vol(9)))
	if err := downres.BlockOnUpdating(uuid, "labels"); err != nil {
		t.Fatal(err)
	}
	got := server.TestHTTP(t, "GET", url, nil)
	if l := binary.LittleEndian.Uint64(got[0:8]); l != 5 {
		t.Fatalf("POST raw with scale=256 (answered %d) changed the full-resolution voxels: label %d, was 5", resp.Code, l)
	}
	if resp.Code == 200 {
		t.Fatalf("POST raw with the out-of-range scale 256 was acknowledged")
	}
}
