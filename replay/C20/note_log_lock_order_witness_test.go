//go:build badger

package datastore

import (
	"sync"
	"testing"
	"time"
)

// Witness for a lock-order inversion (C20: no request can wedge the server): setNodeNote took the node's
// lock and then the repo's, addToNodeLog the repo's and then the node's. A POST note racing a POST log on
// the same version deadlocks both - and, since the repo write lock is then held for ever, every later
// request on that repo.
// Run with: go test -tags badger -run TestVerifWitnessNoteLogLockOrder ./datastore
func TestVerifWitnessNoteLogLockOrder(t *testing.T) {
	OpenTest()
	defer CloseTest()

	root, err := NewRepo("alias", "desc", nil, "")
	if err != nil {
		t.Fatal(err)
	}
	done := make(chan struct{})
	go func() {
		var wg sync.WaitGroup
		for g := 0; g < 4; g++ {
			wg.Add(2)
			go func() {
				defer wg.Done()
				for i := 0; i < 300; i++ {
					if err := SetNodeNote(root, "note"); err != nil {
						t.Error(err)
						return
					}
				}
			}()
			go func() {
				defer wg.Done()
				for i := 0; i < 300; i++ {
					if err := AddToNodeLog(root, []string{"line"}); err != nil {
						t.Error(err)
						return
					}
				}
			}()
		}
		wg.Wait()
		close(done)
	}()
	select {
	case <-done:
	case <-time.After(60 * time.Second):
		t.Fatalf("concurrent POST note / POST log requests on one version did not finish within 60 s: deadlock")
	}
}
