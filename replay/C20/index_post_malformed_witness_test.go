//go:build badger

package labelmap

import (
	"bytes"
	"fmt"
	"net/http"
	"testing"

	pb "google.golang.org/protobuf/proto"

	"github.com/janelia-flyem/dvid/datatype/common/labels"
	"github.com/janelia-flyem/dvid/datatype/common/proto"
	"github.com/janelia-flyem/dvid/dvid"
	"github.com/janelia-flyem/dvid/server"
)

// Witness for the failing obligation labelmap.Data.handleIndex#assert2 (C20: a malformed request is
// answered with a client error and leaves what is stored as it was): POST .../index/<label> whose body
// starts like an Index for that label and then turns into garbage was answered 400 - and then went on
// with the partially parsed message: no blocks, so the stored index of the label was DELETED.
// Run with: go test -tags badger -run TestVerifWitnessIndexPostMalformed ./datatype/labelmap
func TestVerifWitnessIndexPostMalformed(t *testing.T) {
	if err := server.OpenTest(); err != nil {
		t.Fatalf("can't open test server: %v\n", err)
	}
	defer server.CloseTest()

	uuid, _ := initTestRepo()
	server.CreateTestInstance(t, uuid, "labelmap", "labels", dvid.Config{})
	url := fmt.Sprintf("%snode/%s/labels/index/37", server.WebAPIPath, uuid)

	idx := new(labels.Index)
	idx.Label = 37
	idx.Blocks = map[uint64]*proto.SVCount{labels.EncodeBlockIndex(1, 2, 3): {Counts: map[uint64]uint32{37: 100}}}
	good, err := pb.Marshal(idx)
	if err != nil {
		t.Fatal(err)
	}
	server.TestHTTP(t, "POST", url, bytes.NewBuffer(good))
	before := server.TestHTTP(t, "GET", url, nil)

	// only the label field, followed by a truncated field
	onlyLabel, err := pb.Marshal(&labels.Index{LabelIndex: proto.LabelIndex{Label: 37}})
	if err != nil {
		t.Fatal(err)
	}
	bad := append(onlyLabel, 0x0A, 0xFF)
	resp := server.TestHTTPResponse(t, "POST", url, bytes.NewBuffer(bad))
	if resp.Code == http.StatusOK {
		t.Fatalf("malformed index accepted")
	}
	after := server.TestHTTPResponse(t, "GET", url, nil)
	if after.Code != http.StatusOK || !bytes.Equal(after.Body.Bytes(), before) {
		t.Fatalf("POST answered %d changed the stored index: GET now answers %d (%d bytes, was %d bytes)", resp.Code, after.Code, after.Body.Len(), len(before))
	}
}
