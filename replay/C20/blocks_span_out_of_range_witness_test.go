//go:build badger

package imageblk

import (
	"fmt"
	"testing"

	"github.com/janelia-flyem/dvid/dvid"
	"github.com/janelia-flyem/dvid/server"
)

// Witness for the failing obligation imageblk.Data.GetBlocks#assert1 (C20: out-of-range parameters get a
// client error, never a recovered panic): GET .../blocks/<coord>/<span> with a negative span, or one so
// large that block bytes * span overflows int32, reached make([]byte, n) with a negative n - the handler
// panicked ("makeslice: len out of range") and the request was answered 500.
// Run with: go test -tags badger -run TestVerifWitnessBlocksSpanOutOfRange ./datatype/imageblk
func TestVerifWitnessBlocksSpanOutOfRange(t *testing.T) {
	if err := server.OpenTest(); err != nil {
		t.Fatalf("can't open test server: %v\n", err)
	}
	defer server.CloseTest()

	uuid, _ := initTestRepo()
	server.CreateTestInstance(t, uuid, "uint8blk", "grayscale", dvid.Config{})
	for _, span := range []string{"-1", "70000", "2147483647"} {
		resp := server.TestHTTPResponse(t, "GET", fmt.Sprintf("%snode/%s/grayscale/blocks/0_0_0/%s", server.WebAPIPath, uuid, span), nil)
		if resp.Code != 400 {
			t.Errorf("GET blocks with span %s answered %d, want 400: %.120s", span, resp.Code, resp.Body.String())
		}
	}
}
