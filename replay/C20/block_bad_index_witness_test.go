package labels

// Witness for the open finding Block.UnmarshalBinary#ensures (table indices not validated):
// a 132-byte block whose header is size-consistent but whose sub-block index (7) is not a valid
// position in the 2-entry label table is accepted by UnmarshalBinary and then panics in
// CalcNumLabels (which labelmap runs while indexing ingested blocks).

import (
	"encoding/binary"
	"testing"
)

func TestVerifBlockBadIndex(t *testing.T) {
	// 2x2x2 sub-blocks, 2 labels; sub-block 0 uses 2 labels (indices 0 and 7: 7 is out of range),
	// the other seven sub-blocks use 1 label each
	data := make([]byte, 16+2*8+8*2+9*4+64)
	binary.LittleEndian.PutUint32(data[0:4], 2)
	binary.LittleEndian.PutUint32(data[4:8], 2)
	binary.LittleEndian.PutUint32(data[8:12], 2)
	binary.LittleEndian.PutUint32(data[12:16], 2)
	binary.LittleEndian.PutUint64(data[16:24], 5)
	binary.LittleEndian.PutUint64(data[24:32], 6)
	binary.LittleEndian.PutUint16(data[32:34], 2)
	for i := 1; i < 8; i++ {
		binary.LittleEndian.PutUint16(data[32+2*i:34+2*i], 1)
	}
	binary.LittleEndian.PutUint32(data[48:52], 0)
	binary.LittleEndian.PutUint32(data[52:56], 7) // out of range
	var b Block
	if err := b.UnmarshalBinary(data); err != nil {
		t.Logf("rejected: %v", err)
		return
	}
	t.Logf("accepted: %d labels, SBIndices %v", len(b.Labels), b.SBIndices)
	defer func() {
		if r := recover(); r != nil {
			t.Errorf("VERIF-WITNESS CalcNumLabels panicked on a block accepted by UnmarshalBinary: %v", r)
		}
	}()
	b.CalcNumLabels(nil)
}
