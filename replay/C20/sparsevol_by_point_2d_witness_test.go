//go:build badger

package labelmap

import (
	"fmt"
	"testing"

	"github.com/janelia-flyem/dvid/dvid"
	"github.com/janelia-flyem/dvid/server"
)

// Witness for the failing obligation labelmap.Data.GetLabelAtScaledPoint#assert1 (C20): GET
// .../sparsevol-by-point/1_2 (a 2-d coordinate) reached an unchecked type assertion on the block
// coordinate - "interface conversion: dvid.ChunkPoint is dvid.ChunkPoint2d, not dvid.ChunkPoint3d" - and
// was answered 500 (recovered panic) instead of a client error.
// Run with: go test -tags badger -run TestVerifWitnessSparsevolByPoint2d ./datatype/labelmap
func TestVerifWitnessSparsevolByPoint2d(t *testing.T) {
	if err := server.OpenTest(); err != nil {
		t.Fatalf("can't open test server: %v\n", err)
	}
	defer server.CloseTest()
	uuid, _ := initTestRepo()
	server.CreateTestInstance(t, uuid, "labelmap", "labels", dvid.Config{})
	for _, u := range []string{"labels/sparsevol-by-point/1_2", "labels/sparsevol-by-point/1_2_3_4"} {
		resp := server.TestHTTPResponse(t, "GET", fmt.Sprintf("%snode/%s/%s", server.WebAPIPath, uuid, u), nil)
		if resp.Code != 400 {
			t.Errorf("GET %s answered %d, want 400: %.100q", u, resp.Code, resp.Body.String())
		}
	}
}
