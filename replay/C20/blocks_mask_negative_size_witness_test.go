//go:build badger

package labelmap

import (
	"fmt"
	"testing"

	"github.com/janelia-flyem/dvid/dvid"
	"github.com/janelia-flyem/dvid/server"
)

// Witness for the failing obligations labelmap.Data.sendBlocksVolume#assert1 and roi.Data.GetMask#assert2
// (C20: out-of-range sizes get a client error, never a recovered panic): GET .../blocks/-64_64_64/0_0_0
// reached make(chan, n) with a negative n ("makechan: size out of range") and GET
// .../mask/0_1_2/-5_10_10/0_0_0 reached make([]uint8, n) with a negative n - both handlers panicked and
// the requests were answered 500.
// Run with: go test -tags badger -run TestVerifWitnessNegativeSizes ./datatype/labelmap
func TestVerifWitnessNegativeSizes(t *testing.T) {
	if err := server.OpenTest(); err != nil {
		t.Fatalf("can't open test server: %v\n", err)
	}
	defer server.CloseTest()
	uuid, _ := initTestRepo()
	server.CreateTestInstance(t, uuid, "labelmap", "labels", dvid.Config{})
	server.CreateTestInstance(t, uuid, "roi", "myroi", dvid.Config{})
	for _, u := range []string{
		"labels/blocks/-64_64_64/0_0_0",
		"labels/blocks/64_64_-128/0_0_0",
		"myroi/mask/0_1_2/-5_10_10/0_0_0",
		"myroi/mask/0_1_2/10_10_-1/0_0_0",
	} {
		resp := server.TestHTTPResponse(t, "GET", fmt.Sprintf("%snode/%s/%s", server.WebAPIPath, uuid, u), nil)
		if resp.Code != 400 {
			t.Errorf("GET %s answered %d, want 400: %.100q", u, resp.Code, resp.Body.String())
		}
	}
}
