//go:build badger

package labelmap

import (
	"bytes"
	"fmt"
	"net/http"
	"testing"

	pb "google.golang.org/protobuf/proto"

	"github.com/janelia-flyem/dvid/datatype/common/proto"
	"github.com/janelia-flyem/dvid/dvid"
	"github.com/janelia-flyem/dvid/server"
)

// Witness for the failing obligation labelmap.Data.handleMappings#assert2 (C20): POST .../mappings with
// a protobuf body that is cut off in the middle of its second mapping operation was answered 400 - and
// the first, completely parsed operation was ingested all the same, so a rejected request changed the
// supervoxel-to-body mapping.
// Run with: go test -tags badger -run TestVerifWitnessMappingsPostMalformed ./datatype/labelmap
func TestVerifWitnessMappingsPostMalformed(t *testing.T) {
	if err := server.OpenTest(); err != nil {
		t.Fatalf("can't open test server: %v\n", err)
	}
	defer server.CloseTest()

	uuid, v := initTestRepo()
	server.CreateTestInstance(t, uuid, "labelmap", "labels", dvid.Config{})
	d, err := GetByUUIDName(uuid, "labels")
	if err != nil {
		t.Fatal(err)
	}
	ops := &proto.MappingOps{Mappings: []*proto.MappingOp{
		{Mutid: 1, Mapped: 7, Original: []uint64{1, 2, 3}},
		{Mutid: 2, Mapped: 8, Original: []uint64{4, 5, 6}},
	}}
	full, err := pb.Marshal(ops)
	if err != nil {
		t.Fatal(err)
	}
	truncated := full[:len(full)-3]
	url := fmt.Sprintf("%snode/%s/labels/mappings", server.WebAPIPath, uuid)
	resp := server.TestHTTPResponse(t, "POST", url, bytes.NewBuffer(truncated))
	if resp.Code == http.StatusOK {
		t.Fatalf("truncated mappings accepted")
	}
	mapped, _, err := d.GetMappedLabels(v, []uint64{1, 2, 3})
	if err != nil {
		t.Fatal(err)
	}
	for i, m := range mapped {
		if m != uint64(i+1) && m != 0 {
			t.Fatalf("POST answered %d still mapped supervoxel %d to body %d", resp.Code, i+1, m)
		}
	}
}
