//go:build badger

package roi

import (
	"fmt"
	"testing"

	"github.com/janelia-flyem/dvid/dvid"
	"github.com/janelia-flyem/dvid/server"
)

// Witness for the failing obligations roi.Data.Partition#assert1 / Data.SimplePartition#assert1 (C20):
// GET .../partition?batchsize=0 divided by the batch size - the handler panicked (integer divide by
// zero) and the request was answered 500 instead of a client error.
// Run with: go test -tags badger -run TestVerifWitnessPartitionBatchsizeZero ./datatype/roi
func TestVerifWitnessPartitionBatchsizeZero(t *testing.T) {
	if err := server.OpenTest(); err != nil {
		t.Fatalf("can't open test server: %v\n", err)
	}
	defer server.CloseTest()

	uuid, _ := initTestRepo()
	server.CreateTestInstance(t, uuid, "roi", "myroi", dvid.Config{})
	for _, q := range []string{"batchsize=0", "batchsize=0&optimized=true", "batchsize=-4"} {
		resp := server.TestHTTPResponse(t, "GET", fmt.Sprintf("%snode/%s/myroi/partition?%s", server.WebAPIPath, uuid, q), nil)
		if resp.Code != 400 {
			t.Errorf("GET partition?%s answered %d, want 400: %.100s", q, resp.Code, resp.Body.String())
		}
	}
}
