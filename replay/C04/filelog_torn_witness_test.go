package filelog

// Witness for obligations fileLogs.ReadAll#nopanic.slice:databuf := data[pos : pos+size],
// ReadAll#inv.loop1.preserved (record within file) and StreamAll#assert1: a log whose last
// record was cut by a crash (header says 5 payload bytes, 2 present).
// Run with: go test -overlay <ov.json> -vet=off -run TestVerifFilelogTorn ./storage/filelog

import (
	"os"
	"path/filepath"
	"testing"

	"github.com/janelia-flyem/dvid/dvid"
	"github.com/janelia-flyem/dvid/storage"
)

func TestVerifFilelogTorn(t *testing.T) {
	dir := t.TempDir()
	// one complete record (type 7, payload "xy"), then a torn one (type 1, size 5, payload "ab")
	content := []byte{7, 0, 2, 0, 0, 0, 'x', 'y', 1, 0, 5, 0, 0, 0, 'a', 'b'}
	if err := os.WriteFile(filepath.Join(dir, "d-v"), content, 0644); err != nil {
		t.Fatal(err)
	}
	flogs := &fileLogs{path: dir, files: map[string]*fileLog{}}
	func() {
		defer func() {
			if r := recover(); r != nil {
				t.Errorf("VERIF-WITNESS ReadAll panicked: %v", r)
			}
		}()
		msgs, err := flogs.ReadAll(dvid.UUID("d"), dvid.UUID("v"))
		if err != nil {
			t.Logf("ReadAll error: %v", err)
		}
		for i, m := range msgs {
			t.Logf("ReadAll record %d: type=%d data=%q", i, m.EntryType, m.Data)
		}
		if len(msgs) != 1 {
			t.Errorf("VERIF-WITNESS ReadAll returned %d records, exactly 1 was completely written", len(msgs))
		}
	}()
	func() {
		defer func() {
			if r := recover(); r != nil {
				t.Errorf("VERIF-WITNESS StreamAll panicked: %v", r)
			}
		}()
		ch := make(chan storage.LogMessage, 10)
		if err := flogs.StreamAll(dvid.UUID("d"), dvid.UUID("v"), ch); err != nil {
			t.Logf("StreamAll error: %v", err)
		}
		n := 0
		for m := range ch {
			t.Logf("StreamAll record %d: type=%d data=%q", n, m.EntryType, m.Data)
			n++
		}
		if n != 1 {
			t.Errorf("VERIF-WITNESS StreamAll delivered %d records, exactly 1 was completely written", n)
		}
	}()
}
