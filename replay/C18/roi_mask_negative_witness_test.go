//go:build badger

package roi

import (
	"bytes"
	"fmt"
	"testing"

	"github.com/janelia-flyem/dvid/dvid"
	"github.com/janelia-flyem/dvid/server"
)

// Witness for the failing obligation roi.Data.GetMask#assert1 (C18: mask queries agree with the spans,
// for all signed coordinates): the blocks covered by the requested subvolume were computed with Go's
// truncating division, so for a subvolume reaching into negative coordinates the ROI block (-1,-1,-1)
// was treated as out of range and its voxels were missing from the mask.
// Run with: go test -tags badger -run TestVerifWitnessMaskNegativeCoords ./datatype/roi
func TestVerifWitnessMaskNegativeCoords(t *testing.T) {
	if err := server.OpenTest(); err != nil {
		t.Fatalf("can't open test server: %v\n", err)
	}
	defer server.CloseTest()

	uuid, _ := initTestRepo()
	server.CreateTestInstance(t, uuid, "roi", "myroi", dvid.Config{})
	base := fmt.Sprintf("%snode/%s/myroi/", server.WebAPIPath, uuid)
	// spans are [z, y, x0, x1] in block coordinates (32^3 blocks): blocks (-1,-1,-1) and (0,0,0)
	server.TestHTTP(t, "POST", base+"roi", bytes.NewBufferString("[[-1,-1,-1,-1],[0,0,0,0]]"))

	const n = 40
	mask := server.TestHTTP(t, "GET", fmt.Sprintf("%smask/0_1_2/%d_%d_%d/-10_-10_-10", base, n, n, n), nil)
	if len(mask) != n*n*n {
		t.Fatalf("mask has %d bytes, want %d", len(mask), n*n*n)
	}
	at := func(x, y, z int) byte { return mask[(z+10)*n*n+(y+10)*n+(x+10)] }
	for _, p := range [][3]int{{-1, -1, -1}, {-10, -10, -10}, {-3, -5, -7}, {0, 0, 0}, {29, 29, 29}} {
		if at(p[0], p[1], p[2]) != 1 {
			t.Errorf("voxel %v lies in an ROI block but the mask has %d there", p, at(p[0], p[1], p[2]))
		}
	}
	for _, p := range [][3]int{{-1, 0, 0}, {0, -1, 5}, {5, 5, -1}} {
		if at(p[0], p[1], p[2]) != 0 {
			t.Errorf("voxel %v lies outside the ROI but the mask has %d there", p, at(p[0], p[1], p[2]))
		}
	}
}
