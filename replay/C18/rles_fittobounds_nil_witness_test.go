package dvid

import "testing"

// Witness for RLEs.FitToBounds#ensures1 (C18): with no bounds the documented result is a copy of the
// runs; the code copied into a slice of length 0 and returned no runs at all.
func TestVerifWitnessRLEsFitToBoundsNil(t *testing.T) {
	rles := RLEs{NewRLE(Point3d{1, 2, 3}, 4), NewRLE(Point3d{5, 6, 7}, 8)}
	out := rles.FitToBounds(nil)
	if len(out) != len(rles) {
		t.Fatalf("FitToBounds(nil) returned %d runs, want %d", len(out), len(rles))
	}
	for i := range rles {
		if out[i] != rles[i] {
			t.Fatalf("run %d: got %v want %v", i, out[i], rles[i])
		}
	}
}
