package main

// Maps, range iteration, channels (ghost), locks.

import (
	"fmt"
	"go/token"
	"go/types"
	"sort"
	"strings"

	"golang.org/x/tools/go/ssa"
)

// map heaps: M:<maptype>.dom : Ref -> (Array K Bool)
//
//	M:<maptype>.val<leaf> : Ref -> (Array K leafsort)
//	M:<maptype>.len : Ref -> BV64
func (vc *VC) mapKeySort(m *types.Map) (string, bool) {
	ls := leavesOf(m.Key())
	if len(ls) != 1 || ls[0].bad {
		return "", false
	}
	return ls[0].sort, true
}

func (vc *VC) mapHeaps(m *types.Map) map[string]string {
	out := map[string]string{}
	ks, ok := vc.mapKeySort(m)
	if !ok {
		return out
	}
	base := "M:" + typeKey(m)
	out[base+".dom"] = arraySort(sortRef, arraySort(ks, sortBool))
	out[base+".len"] = arraySort(sortRef, sortIdx)
	for _, lf := range leavesOf(m.Elem()) {
		if lf.bad {
			continue
		}
		out[base+".val"+lf.path] = arraySort(sortRef, arraySort(ks, lf.sort))
	}
	return out
}

func (vc *VC) makeMap(st *State, t types.Type) Val {
	m := t.Underlying().(*types.Map)
	r := vc.alloc(st, "map")
	ks, ok := vc.mapKeySort(m)
	if !ok {
		vc.unsupported("map with composite key type %s", typeKey(m))
		return Val{K: KRef, T: t, S: r}
	}
	base := "M:" + typeKey(m)
	ds := arraySort(sortRef, arraySort(ks, sortBool))
	d := vc.heapGet(st, base+".dom", ds)
	vc.heapSet(st, base+".dom", ds, vc.sc.define("h", ds, store(d, r, fmt.Sprintf("((as const %s) false)", arraySort(ks, sortBool)))))
	ls := arraySort(sortRef, sortIdx)
	l := vc.heapGet(st, base+".len", ls)
	vc.heapSet(st, base+".len", ls, vc.sc.define("h", ls, store(l, r, i64(0))))
	return Val{K: KRef, T: t, S: r}
}

func (vc *VC) mapLen(st *State, m Val) string {
	mt := m.T.Underlying().(*types.Map)
	base := "M:" + typeKey(mt)
	l := vc.heapGet(st, base+".len", arraySort(sortRef, sortIdx))
	t := sel(l, m.S)
	// a map's length is never negative (global fact about the len component of the map heap)
	vc.sc.assert(sx("bvsge", t, i64(0)))
	// nil map has length 0
	return ite(eq(m.S, "0"), i64(0), t)
}

func (vc *VC) mapKeyTerm(k Val) (string, bool) {
	f, ok := flatten(k)
	if !ok || len(f) != 1 {
		return "", false
	}
	return f[0], true
}

func (vc *VC) mapLookup(st *State, m, k Val, mt *types.Map) (Val, string) {
	ks, ok := vc.mapKeySort(mt)
	kt, ok2 := vc.mapKeyTerm(k)
	if !ok || !ok2 || m.K != KRef {
		vc.unsupported("map lookup with composite key (%s)", typeKey(mt))
		v, _ := vc.symbolic(mt.Elem(), "mapval")
		return v, vc.sc.fresh("found", sortBool)
	}
	base := "M:" + typeKey(mt)
	d := vc.heapGet(st, base+".dom", arraySort(sortRef, arraySort(ks, sortBool)))
	found := and(not(eq(m.S, "0")), sel(sel(d, m.S), kt))
	ls := leavesOf(mt.Elem())
	terms := make([]string, len(ls))
	z, zok := flatten(vc.zero(mt.Elem()))
	for i, lf := range ls {
		if lf.bad {
			return bad(mt.Elem(), "map element type unsupported"), found
		}
		h := vc.heapGet(st, base+".val"+lf.path, arraySort(sortRef, arraySort(ks, lf.sort)))
		t := sel(sel(h, m.S), kt)
		if zok {
			t = ite(found, t, z[i])
		}
		terms[i] = t
	}
	return unflatten(mt.Elem(), terms), found
}

func (vc *VC) mapUpdate(st *State, m, k, v Val, mt *types.Map) {
	ks, ok := vc.mapKeySort(mt)
	kt, ok2 := vc.mapKeyTerm(k)
	if !ok || !ok2 || m.K != KRef {
		vc.unsupported("map update with composite key (%s)", typeKey(mt))
		return
	}
	base := "M:" + typeKey(mt)
	ds := arraySort(sortRef, arraySort(ks, sortBool))
	d := vc.heapGet(st, base+".dom", ds)
	was := sel(sel(d, m.S), kt)
	lsrt := arraySort(sortRef, sortIdx)
	l := vc.heapGet(st, base+".len", lsrt)
	vc.heapSet(st, base+".len", lsrt, vc.sc.define("h", lsrt, store(l, m.S, ite(was, sel(l, m.S), bvAdd(sel(l, m.S), i64(1))))))
	vc.heapSet(st, base+".dom", ds, vc.sc.define("h", ds, store(d, m.S, store(sel(d, m.S), kt, "true"))))
	f, fok := flatten(v)
	for i, lf := range leavesOf(mt.Elem()) {
		if lf.bad {
			continue
		}
		hs := arraySort(sortRef, arraySort(ks, lf.sort))
		h := vc.heapGet(st, base+".val"+lf.path, hs)
		var nv string
		if fok && v.K != KBad {
			nv = f[i]
		} else {
			nv = vc.sc.fresh("unk", lf.sort)
			vc.unsupported("map update with non-representable value")
		}
		vc.heapSet(st, base+".val"+lf.path, hs, vc.sc.define("h", hs, store(h, m.S, store(sel(h, m.S), kt, nv))))
	}
}

func (vc *VC) mapDelete(st *State, m, k Val, mt *types.Map) {
	ks, ok := vc.mapKeySort(mt)
	kt, ok2 := vc.mapKeyTerm(k)
	if !ok || !ok2 || m.K != KRef {
		vc.unsupported("map delete with composite key (%s)", typeKey(mt))
		return
	}
	base := "M:" + typeKey(mt)
	ds := arraySort(sortRef, arraySort(ks, sortBool))
	d := vc.heapGet(st, base+".dom", ds)
	was := and(not(eq(m.S, "0")), sel(sel(d, m.S), kt))
	lsrt := arraySort(sortRef, sortIdx)
	l := vc.heapGet(st, base+".len", lsrt)
	vc.heapSet(st, base+".len", lsrt, vc.sc.define("h", lsrt, store(l, m.S, ite(was, bvSub(sel(l, m.S), i64(1)), sel(l, m.S)))))
	vc.heapSet(st, base+".dom", ds, vc.sc.define("h", ds, store(d, m.S, store(sel(d, m.S), kt, "false"))))
}

// ---------- range over map / string ----------

type rangeIter struct {
	X     Val
	isMap bool
	mt    *types.Map
	dom0  string // key set at range start
}

var rangeIters = map[*ssa.Range]*rangeIter{}

func (vc *VC) rangeStart(fr *Frame, st *State, ins *ssa.Range) Val {
	x := vc.value(fr, ins.X)
	it := &rangeIter{X: x}
	if mt, ok := ins.X.Type().Underlying().(*types.Map); ok {
		it.isMap = true
		it.mt = mt
		// ghost set of keys already produced by this range statement
		if ks, ok := vc.mapKeySort(mt); ok {
			if name := vc.visitedName(fr, ins); name != "" {
				gs := arraySort(ks, sortBool)
				st.ghost[name] = Val{K: KGhost, GSort: gs, S: fmt.Sprintf("((as const %s) false)", gs)}
			}
			// key set when the range statement starts (the loop may insert afterwards)
			d := vc.heapGet(st, "M:"+typeKey(mt)+".dom", arraySort(sortRef, arraySort(ks, sortBool)))
			it.dom0 = vc.sc.define("rng.dom0", arraySort(ks, sortBool), sel(d, x.S))
		}
	}
	rangeIters[ins] = it
	return Val{K: KRef, T: ins.Type(), S: "0"}
}

// visitedName: "visited<k>" where k is the ordinal of the loop driven by this range statement.
func (vc *VC) visitedName(fr *Frame, rg *ssa.Range) string {
	refs := rg.Referrers()
	if refs == nil {
		return ""
	}
	for _, r := range *refs {
		if nx, ok := r.(*ssa.Next); ok {
			if li := fr.loops[nx.Block()]; li != nil {
				return fmt.Sprintf("visited%d", li.ordinal)
			}
		}
	}
	return ""
}

// loopWritesMap: the loop driven by this Next inserts into a map of the ranged type.
func loopWritesMap(fr *Frame, ins *ssa.Next, mt *types.Map) bool {
	li := fr.loops[ins.Block()]
	if li == nil {
		return true
	}
	for b := range li.body {
		for _, in := range b.Instrs {
			switch in := in.(type) {
			case *ssa.MapUpdate:
				if types.Identical(in.Map.Type().Underlying(), mt) {
					return true
				}
			case *ssa.Call:
				if _, isB := in.Call.Value.(*ssa.Builtin); !isB {
					// calls may insert; be conservative unless the callee is known not to touch this map type
					if in.Call.IsInvoke() || in.Call.StaticCallee() == nil {
						continue
					}
				}
			}
		}
	}
	return false
}

// rangeNext for maps: yields a key that is in the map and has not been produced yet (in no
// particular order), or ok=false. When the loop does not insert into the map, ok=false implies
// that every key of the map has been produced (ghost set visited<k>).
func (vc *VC) rangeNext(fr *Frame, st *State, ins *ssa.Next) Val {
	rg, _ := ins.Iter.(*ssa.Range)
	it := rangeIters[rg]
	tt := ins.Type().(*types.Tuple)
	okv := vc.sc.fresh("rng.ok", sortBool)
	if it != nil && it.isMap {
		kt := it.mt.Key()
		k, _ := vc.symbolic(kt, "rng.key")
		vc.assume(st, vc.wf(st, k))
		v, found := vc.mapLookup(st, it.X, k, it.mt)
		vc.assume(st, implies(okv, found))
		vc.assume(st, implies(eq(vc.mapLen(st, it.X), i64(0)), not(okv)))
		name := vc.visitedName(fr, rg)
		if name == "" {
			// a range statement that is left after its first step (no back edge): the first step
			// fails only if the map is empty
			if ks, ok := vc.mapKeySort(it.mt); ok {
				base := "M:" + typeKey(it.mt)
				d := vc.heapGet(st, base+".dom", arraySort(sortRef, arraySort(ks, sortBool)))
				none := fmt.Sprintf("(forall ((k!q %s)) (! (not (select (select %s %s) k!q)) :pattern ((select (select %s %s) k!q))))", ks, d, it.X.S, d, it.X.S)
				vc.assume(st, implies(not(okv), none))
				// ... and an empty map has length 0 (the first step of a range over a map of length > 0 succeeds)
				vc.assume(st, implies(not(okv), eq(vc.mapLen(st, it.X), i64(0))))
			}
		}
		if vis, has := st.ghost[name]; has && name != "" {
			if kterm, ok := vc.mapKeyTerm(k); ok {
				vc.assume(st, implies(okv, not(sel(vis.S, kterm))))
				if !loopWritesMap(fr, ins, it.mt) {
					ks, _ := vc.mapKeySort(it.mt)
					base := "M:" + typeKey(it.mt)
					d := vc.heapGet(st, base+".dom", arraySort(sortRef, arraySort(ks, sortBool)))
					all := fmt.Sprintf("(forall ((k!q %s)) (! (=> (select (select %s %s) k!q) (select %s k!q)) :pattern ((select (select %s %s) k!q))))", ks, d, it.X.S, vis.S, d, it.X.S)
					vc.assume(st, implies(not(okv), all))
				} else if it.dom0 != "" {
					// the loop may insert into a map of this type: keys present when the range started
					// and still present have all been produced (Go spec: entries added during iteration
					// may or may not be produced; entries not yet reached and removed are not)
					ks, _ := vc.mapKeySort(it.mt)
					base := "M:" + typeKey(it.mt)
					d := vc.heapGet(st, base+".dom", arraySort(sortRef, arraySort(ks, sortBool)))
					all := fmt.Sprintf("(forall ((k!q %s)) (! (=> (and (select %s k!q) (select (select %s %s) k!q)) (select %s k!q)) :pattern ((select (select %s %s) k!q))))", ks, it.dom0, d, it.X.S, vis.S, d, it.X.S)
					vc.assume(st, implies(not(okv), all))
				}
				st.ghost[name] = Val{K: KGhost, GSort: vis.GSort, S: vc.sc.define("vis", vis.GSort, ite(okv, store(vis.S, kterm, "true"), vis.S))}
			}
		}
		kk, vv := k, v
		if b, ok := tt.At(1).Type().(*types.Basic); ok && b.Kind() == types.Invalid {
			kk = Val{K: KScalar, T: types.Typ[types.Bool], S: "false"}
		}
		if b, ok := tt.At(2).Type().(*types.Basic); ok && b.Kind() == types.Invalid {
			vv = Val{K: KScalar, T: types.Typ[types.Bool], S: "false"}
		}
		return Val{K: KTuple, T: ins.Type(), F: []Val{boolVal(okv), kk, vv}}
	}
	// string iteration: arbitrary index/rune
	vc.note("range over string modelled as arbitrary (index, rune) sequence")
	k, _ := vc.symbolic(types.Typ[types.Int], "rng.idx")
	r, _ := vc.symbolic(types.Typ[types.Int32], "rng.rune")
	if it != nil && it.X.K == KScalar {
		vc.declStr()
		vc.assume(st, implies(okv, and(sx("bvsle", i64(0), k.S), sx("bvslt", k.S, sx("s.len", it.X.S)))))
	}
	return Val{K: KTuple, T: ins.Type(), F: []Val{boolVal(okv), k, r}}
}

// ---------- channels ----------

func (vc *VC) sendEffect(fr *Frame, st *State, ins *ssa.Send, pos token.Position) {
	// metrics channels and the like: no modelled effect. A ghost sequence is
	// attached when a contract declares one (ghost chan).
	ch := vc.value(fr, ins.Chan)
	x := vc.value(fr, ins.X)
	if g, ok := st.ghost["chan:"+ch.S]; ok {
		_ = g
		_ = x
	}
}

// ---------- defers and locks ----------

func (vc *VC) deferEffect(fr *Frame, st *State, ins *ssa.Defer, pos token.Position) {}

func (vc *VC) runDefers(fr *Frame, st *State, pos token.Position) {
	for i := len(fr.defers) - 1; i >= 0; i-- {
		d := fr.defers[i]
		callee := d.Call.StaticCallee()
		if callee == nil && !d.Call.IsInvoke() {
			// deferred function literal: run its body now
			fv := vc.value(fr, d.Call.Value)
			if fv.Clo != nil {
				fn := fv.Clo.Fn.(*ssa.Function)
				if fn.Blocks != nil && fr.depth < maxInlineDepth && vc.canInline(fn) {
					var args []Val
					for _, a := range d.Call.Args {
						args = append(args, vc.value(fr, a))
					}
					var ccon *Contract
					if isNestedIn(fn, fr.fn) {
						ccon = fr.con
					}
					_, out := vc.execFunc(fn, args, fv.Clo.Bindings, st, fr.depth+1, ccon, false)
					if out.pc != "false" {
						*st = *out
					}
					continue
				}
			}
			vc.note("deferred function value in %s not executed: heap havocked", funcKey(fr.fn))
			vc.havocAllHeap(st)
			continue
		}
		if callee == nil {
			if !vc.eng.isPureMethod(&d.Call) {
				vc.note("deferred interface call in %s: heap havocked", funcKey(fr.fn))
				vc.havocAllHeap(st)
			}
			continue
		}
		key := funcKey(callee)
		if isLockFunc(key) {
			vc.lockCall(fr, st, &d.Call, key, pos)
			continue
		}
		if vc.eng.isNoEffect(key) {
			continue
		}
		if mc, ok := d.Call.Value.(*ssa.MakeClosure); ok {
			fv := vc.value(fr, mc)
			fn := mc.Fn.(*ssa.Function)
			if fv.Clo != nil && fn.Blocks != nil && fr.depth < maxInlineDepth && vc.canInline(fn) {
				var args []Val
				for _, a := range d.Call.Args {
					args = append(args, vc.value(fr, a))
				}
				var ccon *Contract
				if isNestedIn(fn, fr.fn) {
					ccon = fr.con
				}
				_, out := vc.execFunc(fn, args, fv.Clo.Bindings, st, fr.depth+1, ccon, false)
				if out.pc != "false" {
					*st = *out
				}
				continue
			}
		}
		if con := vc.eng.cs.Funcs[key]; con != nil && !con.Flags["inline"] {
			var args []Val
			for _, a := range d.Call.Args {
				args = append(args, vc.value(fr, a))
			}
			vc.applyContract(fr, st, callee, con, args, pos, "deferred "+key)
			continue
		}
		if callee.Blocks != nil && fr.depth < maxInlineDepth && vc.canInline(callee) {
			var args []Val
			for _, a := range d.Call.Args {
				args = append(args, vc.value(fr, a))
			}
			_, out := vc.execFunc(callee, args, nil, st, fr.depth+1, nil, false)
			if out.pc != "false" {
				*st = *out
			}
			continue
		}
		vc.note("deferred call to %s in %s: heap havocked", key, funcKey(fr.fn))
		vc.havocAllHeap(st)
	}
}

func isLockFunc(key string) bool {
	switch key {
	case "sync.Mutex.Lock", "sync.Mutex.Unlock", "sync.RWMutex.Lock", "sync.RWMutex.Unlock", "sync.RWMutex.RLock", "sync.RWMutex.RUnlock":
		return true
	}
	return false
}

// lockCall tracks the lockset (used by guarded_by checks).
func (vc *VC) lockCall(fr *Frame, st *State, c *ssa.CallCommon, key string, pos token.Position) {
	if len(c.Args) == 0 {
		return
	}
	// the lockset follows the function under contract and its own closures only: inlined callees
	// acquire and release their own locks (checked when they are under contract themselves)
	if !(fr.top || (vc.topFn != nil && isNestedIn(fr.fn, vc.topFn))) {
		return
	}
	// a mutex is identified by the source-level access path of its operand (variable and field
	// names), assuming the variable is not reassigned between Lock and Unlock
	id := accessPath(c.Args[0])
	if id == "" {
		id = lockID(vc.value(fr, c.Args[0]))
	}
	if id == "" {
		return
	}
	if (strings.HasSuffix(key, ".Lock") || strings.HasSuffix(key, ".RLock")) && vc.topCon != nil && vc.topCon.Flags["interference"] && st.locks[id] == 0 {
		vc.interfere(fr, st, c.Args[0])
	}
	if strings.HasSuffix(key, ".Lock") || strings.HasSuffix(key, ".RLock") {
		vc.lockOrderCheck(fr, st, c.Args[0], id, pos)
	}
	switch key {
	case "sync.Mutex.Lock", "sync.RWMutex.Lock":
		st.locks[id] = 2
		st.locks["#n:"+id]++ // acquisition count (spec builtin lockepoch): separates critical sections
	case "sync.RWMutex.RLock":
		if st.locks[id] < 1 {
			st.locks[id] = 1
		}
		st.locks["#n:"+id]++
	default:
		delete(st.locks, id)
	}
}

// interfere (functions flagged `interference`): when a mutex is acquired, the fields it guards (per the
// `guarded` declarations) may have been changed by other goroutines since it was last held: scalar
// fields and slice headers take arbitrary well-formed values, map fields keep their identity but take
// arbitrary contents. Everything computed from earlier reads is thereby stale, which is what exposes
// check-then-act sequences whose check and act lie in different critical sections.
func (vc *VC) interfere(fr *Frame, st *State, muArg ssa.Value) {
	fa, ok := muArg.(*ssa.FieldAddr)
	if !ok {
		return
	}
	pt, _ := fa.X.Type().Underlying().(*types.Pointer)
	if pt == nil {
		return
	}
	stt, _ := pt.Elem().Underlying().(*types.Struct)
	if stt == nil {
		return
	}
	mu := stt.Field(fa.Field).Name()
	base := vc.value(fr, fa.X)
	if base.K != KPtr || base.L == nil || base.L.Kind != locObj {
		return
	}
	for k := 0; k < stt.NumFields(); k++ {
		f := stt.Field(k)
		if g, ok := vc.eng.cs.Guards[typeKey(pt.Elem())+"."+f.Name()]; !ok || g != mu {
			continue
		}
		loc := base.L.extend(pathElem{Field: k})
		if mt, isMap := f.Type().Underlying().(*types.Map); isMap {
			cur := vc.load(st, loc)
			if cur.K == KRef {
				mh := vc.mapHeaps(mt)
				var names []string
				for hn := range mh {
					names = append(names, hn)
				}
				sort.Strings(names)
				for _, hn := range names {
					hs := mh[hn]
					h := vc.heapGet(st, hn, hs)
					_, args, _ := splitArgs(hs)
					vc.heapSet(st, hn, hs, vc.sc.define("h", hs, store(h, cur.S, vc.sc.fresh("intf", args[1]))))
				}
			}
			continue
		}
		nv, ok := vc.symbolic(f.Type(), "intf."+f.Name())
		if !ok {
			continue
		}
		vc.assume(st, vc.wf(st, nv))
		vc.storeTo(st, loc, nv)
	}
	vc.note("interference: fields guarded by %s are re-read as arbitrary at each acquisition", mu)
}

func lockID(mu Val) string {
	if mu.K != KPtr || mu.L == nil {
		return ""
	}
	prefix, _, _ := pathPrefix(mu.L.Base, mu.L.Path)
	switch mu.L.Kind {
	case locObj:
		return typeKey(mu.L.Base) + prefix + "@" + mu.L.Ref
	case locCell:
		return "cell:" + mu.L.Cell.Name + prefix
	}
	return ""
}

// mayAcquire: mutexes (as access paths rooted at a parameter of fn) that fn may lock, directly or
// through statically known callees of the module (summary computed from the SSA, depth-limited).
func (e *Engine) mayAcquire(fn *ssa.Function, depth int) map[string]bool {
	if r, ok := e.acqCache[fn]; ok {
		return r
	}
	res := map[string]bool{}
	if e.acqCache == nil {
		e.acqCache = map[*ssa.Function]map[string]bool{}
	}
	e.acqCache[fn] = res // recursion guard
	if fn.Blocks == nil || depth > 4 {
		return res
	}
	isParam := func(root string) bool {
		for _, p := range fn.Params {
			if p.Name() == root {
				return true
			}
		}
		return false
	}
	for _, b := range fn.Blocks {
		for _, in := range b.Instrs {
			var cc *ssa.CallCommon
			switch x := in.(type) {
			case *ssa.Call:
				cc = &x.Call
			case *ssa.Defer:
				cc = &x.Call
			}
			if cc == nil || cc.IsInvoke() {
				continue
			}
			callee := cc.StaticCallee()
			if callee == nil {
				continue
			}
			k := funcKey(callee)
			if isLockFunc(k) {
				if strings.HasSuffix(k, "Lock") && !strings.HasSuffix(k, "Unlock") && len(cc.Args) > 0 {
					if id := accessPath(cc.Args[0]); id != "" && isParam(strings.SplitN(id, ".", 2)[0]) {
						res[id] = true
					}
				}
				continue
			}
			if p := pkgOf(callee); p == nil || !strings.HasPrefix(p.Path(), modPath) {
				continue
			}
			for path := range e.mayAcquire(callee, depth+1) {
				if t := translatePath(path, callee, cc); t != "" && isParam(strings.SplitN(t, ".", 2)[0]) {
					res[t] = true
				}
			}
		}
	}
	return res
}

// translatePath rewrites an access path rooted at a parameter of callee into the caller's path of
// the corresponding argument ("" if the argument has no source-level path).
func translatePath(path string, callee *ssa.Function, cc *ssa.CallCommon) string {
	parts := strings.SplitN(path, ".", 2)
	for i, p := range callee.Params {
		if p.Name() == parts[0] && i < len(cc.Args) {
			base := accessPath(cc.Args[i])
			if base == "" {
				return ""
			}
			if len(parts) == 2 {
				return base + "." + parts[1]
			}
			return base
		}
	}
	return ""
}

// lockProtocolCheck (functions flagged `lockset`): a callee must not lock a mutex the caller already
// holds (sync mutexes are not reentrant: self-deadlock, or deadlock as soon as a writer queues up
// between two read acquisitions), and a callee declared `holds p R|W` needs p held at the call.
func (vc *VC) lockProtocolCheck(fr *Frame, st *State, c *ssa.CallCommon, callee *ssa.Function, key string, pos token.Position) {
	if vc.topCon == nil || !vc.topCon.Flags["lockset"] {
		return
	}
	if !(fr.top || (vc.topFn != nil && isNestedIn(fr.fn, vc.topFn))) {
		return
	}
	if p := pkgOf(callee); p == nil || !strings.HasPrefix(p.Path(), modPath) {
		return
	}
	// dvid.Serialize(x, ...) gob-encodes x: the encoder calls x.GobEncode() when the type has one
	if key == modPath+"/dvid.Serialize" && len(c.Args) > 0 {
		if mi, ok := c.Args[0].(*ssa.MakeInterface); ok {
			if m := vc.eng.prog.LookupMethod(mi.X.Type(), nil, "GobEncode"); m != nil {
				cc := &ssa.CallCommon{Value: m, Args: []ssa.Value{mi.X}}
				vc.lockProtocolCheck(fr, st, cc, m, funcKey(m), pos)
			}
		}
	}
	var acq []string
	for path := range vc.eng.mayAcquire(callee, 0) {
		acq = append(acq, path)
	}
	sort.Strings(acq)
	for _, path := range acq {
		t := translatePath(path, callee, c)
		if t == "" {
			continue
		}
		if m := st.locks[t]; m != 0 {
			name := fmt.Sprintf("%s#lockset.reentry:%s@%s", funcKey(vc.topFn), t, callee.Name())
			if n := vc.nameCount[name]; n > 0 {
				vc.nameCount[name] = n + 1
				name += fmt.Sprintf("#%d", n+1)
			} else {
				vc.nameCount[name] = 1
			}
			vc.oblige(st, "lockset", name, fmt.Sprintf("call to %s, which may lock %s, while %s is held here (sync mutexes are not reentrant)", callee.Name(), t, t), pos, "false")
		}
	}
	if con := vc.eng.cs.Funcs[key]; con != nil {
		var hs []string
		for h := range con.Holds {
			hs = append(hs, h)
		}
		sort.Strings(hs)
		for _, h := range hs {
			t := translatePath(h, callee, c)
			have := 0
			if t != "" {
				have = st.locks[t]
				if have == 3 {
					have = 0
				}
			}
			goal := "false"
			if have >= con.Holds[h] {
				goal = "true"
			}
			vc.oblige(st, "lockset", fmt.Sprintf("%s#lockset.holds:%s@%s", funcKey(vc.topFn), h, callee.Name()),
				fmt.Sprintf("%s requires its caller to hold %s (mode %d); held here: %d", callee.Name(), h, con.Holds[h], have), pos, goal)
		}
	}
}

// guardCheck enforces `guarded Type.field by mu` declarations in functions whose contract carries the
// flag `lockset`: a guarded field of object p may be read only while p.mu is held (read or write
// mode) and written only while it is held in write mode. Mutexes and objects are identified by
// their source-level access paths (see lockCall). Map updates and deletes through a guarded map
// field count as writes.
func (vc *VC) guardCheck(fr *Frame, st *State, addr ssa.Value, write bool, pos token.Position) {
	if write && vc.topCon != nil && len(vc.topCon.NoWrite) > 0 && (fr.top || (vc.topFn != nil && isNestedIn(fr.fn, vc.topFn))) {
		if p := accessPath(addr); p != "" {
			for _, nw := range vc.topCon.NoWrite {
				if p == nw {
					name := fmt.Sprintf("%s#nowrite:%s", funcKey(vc.topFn), nw)
					if n := vc.nameCount[name]; n > 0 {
						vc.nameCount[name] = n + 1
						name += fmt.Sprintf("#%d", n+1)
					} else {
						vc.nameCount[name] = 1
					}
					vc.oblige(st, "assert", name, "the contract forbids writes to "+nw+" (assignment, map insert or delete) in this function", pos, "false")
				}
			}
		}
	}
	if len(vc.eng.cs.Guards) == 0 || vc.topCon == nil || !vc.topCon.Flags["lockset"] {
		return
	}
	if !(fr.top || (vc.topFn != nil && isNestedIn(fr.fn, vc.topFn))) {
		return
	}
	for v := addr; ; {
		fa, ok := v.(*ssa.FieldAddr)
		if !ok {
			return
		}
		pt, _ := fa.X.Type().Underlying().(*types.Pointer)
		if pt == nil {
			return
		}
		stt, _ := pt.Elem().Underlying().(*types.Struct)
		if stt == nil {
			return
		}
		fname := stt.Field(fa.Field).Name()
		if g, ok := vc.eng.cs.Guards[typeKey(pt.Elem())+"."+fname]; ok {
			base := accessPath(fa.X)
			for _, u := range vc.topCon.Unguarded {
				if u == base {
					return
				}
			}
			what, need := "read", 1
			if write {
				what, need = "write", 2
			}
			goal, have := "false", 0
			if base != "" {
				have = st.locks[base+"."+g]
				if have == 3 {
					have = 0 // held on some paths only
				}
				if have >= need {
					goal = "true"
				}
			}
			n := vc.nameCount["lockset:"+what+fname+base]
			vc.nameCount["lockset:"+what+fname+base] = n + 1
			name := fmt.Sprintf("%s#lockset.%s:%s.%s", funcKey(vc.topFn), what, base, fname)
			if n > 0 {
				name += fmt.Sprintf("#%d", n+1)
			}
			vc.oblige(st, "lockset", name,
				fmt.Sprintf("%s of %s.%s requires %s.%s held in %s mode (held: %s)", what, base, fname, base, g,
					map[int]string{1: "read or write", 2: "write"}[need], map[int]string{0: "no", 1: "read", 2: "write"}[have]), pos, goal)
			return
		}
		v = fa.X
	}
}

// accessPath: source-level path of a pointer operand: locals, parameters and captured variables
// by name, fields by name.
func accessPath(v ssa.Value) string {
	switch x := v.(type) {
	case *ssa.Parameter:
		return x.Name()
	case *ssa.FreeVar:
		return x.Name()
	case *ssa.Alloc:
		return x.Comment
	case *ssa.Global:
		return x.Name()
	case *ssa.UnOp:
		if x.Op == token.MUL {
			return accessPath(x.X)
		}
	case *ssa.FieldAddr:
		b := accessPath(x.X)
		if b == "" {
			return ""
		}
		st := x.X.Type().Underlying().(*types.Pointer).Elem().Underlying().(*types.Struct)
		return b + "." + st.Field(x.Field).Name()
	case *ssa.IndexAddr:
		// element of an array/slice of mutexes (lock shards): identified by the index variable's name
		b := accessPath(x.X)
		if b == "" {
			return ""
		}
		switch i := x.Index.(type) {
		case *ssa.Const:
			return b + "[" + i.Value.String() + "]"
		default:
			if ip := accessPath(x.Index); ip != "" {
				return b + "[" + ip + "]"
			}
		}
	}
	return ""
}

// mutexTypeName: "pkgpath.Type.field" of a mutex operand that is the address of a struct field (embedded
// mutexes included: the field is then named after its type, e.g. RWMutex).
func mutexTypeName(muArg ssa.Value) string {
	fa, ok := muArg.(*ssa.FieldAddr)
	if !ok {
		return ""
	}
	pt, _ := fa.X.Type().Underlying().(*types.Pointer)
	if pt == nil {
		return ""
	}
	stt, _ := pt.Elem().Underlying().(*types.Struct)
	if stt == nil {
		return ""
	}
	return typeKey(pt.Elem()) + "." + stt.Field(fa.Field).Name()
}

// lockOrderCheck (file-level `lockorder A.mu B.mu` declarations): acquiring an A.mu while a B.mu is held
// inverts the declared order; with another goroutine following the declared order the two deadlock. One
// obligation per acquisition that inverts a declared pair, failing outright.
func (vc *VC) lockOrderCheck(fr *Frame, st *State, muArg ssa.Value, id string, pos token.Position) {
	if vc.lockTypes == nil {
		vc.lockTypes = map[string]string{}
	}
	tn := mutexTypeName(muArg)
	if tn != "" {
		vc.lockTypes[id] = tn
	}
	if tn == "" || len(vc.eng.cs.LockOrder) == 0 {
		return
	}
	var held []string
	for h, m := range st.locks {
		if strings.HasPrefix(h, "#n:") || m == 0 || h == id {
			continue
		}
		held = append(held, h)
	}
	sort.Strings(held)
	for _, h := range held {
		ht := vc.lockTypes[h]
		for _, lo := range vc.eng.cs.LockOrder {
			if lo[0] == tn && lo[1] == ht {
				name := fmt.Sprintf("%s#lockorder:%s-while-holding-%s", funcKey(vc.topFn), id, h)
				vc.oblige(st, "lockset", name, fmt.Sprintf("%s (%s) is acquired while %s (%s) is held, but the declared order is %s before %s", id, shortType(tn), h, shortType(ht), shortType(lo[0]), shortType(lo[1])), pos, "false")
			}
		}
	}
}

func shortType(t string) string {
	if i := strings.LastIndexByte(t, '/'); i >= 0 {
		return t[i+1:]
	}
	return t
}
