package main

// Maps, range iteration, channels (ghost), locks.

import (
	"fmt"
	"go/token"
	"go/types"

	"golang.org/x/tools/go/ssa"
)

// map heaps: M:<maptype>.dom : Ref -> (Array K Bool)
//            M:<maptype>.val<leaf> : Ref -> (Array K leafsort)
//            M:<maptype>.len : Ref -> BV64
func (vc *VC) mapKeySort(m *types.Map) (string, bool) {
	ls := leavesOf(m.Key())
	if len(ls) != 1 || ls[0].bad {
		return "", false
	}
	return ls[0].sort, true
}

func (vc *VC) mapHeaps(m *types.Map) map[string]string {
	out := map[string]string{}
	ks, ok := vc.mapKeySort(m)
	if !ok {
		return out
	}
	base := "M:" + typeKey(m)
	out[base+".dom"] = arraySort(sortRef, arraySort(ks, sortBool))
	out[base+".len"] = arraySort(sortRef, sortIdx)
	for _, lf := range leavesOf(m.Elem()) {
		if lf.bad {
			continue
		}
		out[base+".val"+lf.path] = arraySort(sortRef, arraySort(ks, lf.sort))
	}
	return out
}

func (vc *VC) makeMap(st *State, t types.Type) Val {
	m := t.Underlying().(*types.Map)
	r := vc.alloc(st, "map")
	ks, ok := vc.mapKeySort(m)
	if !ok {
		vc.unsupported("map with composite key type %s", typeKey(m))
		return Val{K: KRef, T: t, S: r}
	}
	base := "M:" + typeKey(m)
	ds := arraySort(sortRef, arraySort(ks, sortBool))
	d := vc.heapGet(st, base+".dom", ds)
	vc.heapSet(st, base+".dom", ds, vc.sc.define("h", ds, store(d, r, fmt.Sprintf("((as const %s) false)", arraySort(ks, sortBool)))))
	ls := arraySort(sortRef, sortIdx)
	l := vc.heapGet(st, base+".len", ls)
	vc.heapSet(st, base+".len", ls, vc.sc.define("h", ls, store(l, r, i64(0))))
	return Val{K: KRef, T: t, S: r}
}

func (vc *VC) mapLen(st *State, m Val) string {
	mt := m.T.Underlying().(*types.Map)
	base := "M:" + typeKey(mt)
	l := vc.heapGet(st, base+".len", arraySort(sortRef, sortIdx))
	t := sel(l, m.S)
	// nil map has length 0
	return ite(eq(m.S, "0"), i64(0), t)
}

func (vc *VC) mapKeyTerm(k Val) (string, bool) {
	f, ok := flatten(k)
	if !ok || len(f) != 1 {
		return "", false
	}
	return f[0], true
}

func (vc *VC) mapLookup(st *State, m, k Val, mt *types.Map) (Val, string) {
	ks, ok := vc.mapKeySort(mt)
	kt, ok2 := vc.mapKeyTerm(k)
	if !ok || !ok2 || m.K != KRef {
		vc.unsupported("map lookup with composite key (%s)", typeKey(mt))
		v, _ := vc.symbolic(mt.Elem(), "mapval")
		return v, vc.sc.fresh("found", sortBool)
	}
	base := "M:" + typeKey(mt)
	d := vc.heapGet(st, base+".dom", arraySort(sortRef, arraySort(ks, sortBool)))
	found := and(not(eq(m.S, "0")), sel(sel(d, m.S), kt))
	ls := leavesOf(mt.Elem())
	terms := make([]string, len(ls))
	z, zok := flatten(vc.zero(mt.Elem()))
	for i, lf := range ls {
		if lf.bad {
			return bad(mt.Elem(), "map element type unsupported"), found
		}
		h := vc.heapGet(st, base+".val"+lf.path, arraySort(sortRef, arraySort(ks, lf.sort)))
		t := sel(sel(h, m.S), kt)
		if zok {
			t = ite(found, t, z[i])
		}
		terms[i] = t
	}
	return unflatten(mt.Elem(), terms), found
}

func (vc *VC) mapUpdate(st *State, m, k, v Val, mt *types.Map) {
	ks, ok := vc.mapKeySort(mt)
	kt, ok2 := vc.mapKeyTerm(k)
	if !ok || !ok2 || m.K != KRef {
		vc.unsupported("map update with composite key (%s)", typeKey(mt))
		return
	}
	base := "M:" + typeKey(mt)
	ds := arraySort(sortRef, arraySort(ks, sortBool))
	d := vc.heapGet(st, base+".dom", ds)
	was := sel(sel(d, m.S), kt)
	lsrt := arraySort(sortRef, sortIdx)
	l := vc.heapGet(st, base+".len", lsrt)
	vc.heapSet(st, base+".len", lsrt, vc.sc.define("h", lsrt, store(l, m.S, ite(was, sel(l, m.S), bvAdd(sel(l, m.S), i64(1))))))
	vc.heapSet(st, base+".dom", ds, vc.sc.define("h", ds, store(d, m.S, store(sel(d, m.S), kt, "true"))))
	f, fok := flatten(v)
	for i, lf := range leavesOf(mt.Elem()) {
		if lf.bad {
			continue
		}
		hs := arraySort(sortRef, arraySort(ks, lf.sort))
		h := vc.heapGet(st, base+".val"+lf.path, hs)
		var nv string
		if fok && v.K != KBad {
			nv = f[i]
		} else {
			nv = vc.sc.fresh("unk", lf.sort)
			vc.unsupported("map update with non-representable value")
		}
		vc.heapSet(st, base+".val"+lf.path, hs, vc.sc.define("h", hs, store(h, m.S, store(sel(h, m.S), kt, nv))))
	}
}

func (vc *VC) mapDelete(st *State, m, k Val, mt *types.Map) {
	ks, ok := vc.mapKeySort(mt)
	kt, ok2 := vc.mapKeyTerm(k)
	if !ok || !ok2 || m.K != KRef {
		vc.unsupported("map delete with composite key (%s)", typeKey(mt))
		return
	}
	base := "M:" + typeKey(mt)
	ds := arraySort(sortRef, arraySort(ks, sortBool))
	d := vc.heapGet(st, base+".dom", ds)
	was := and(not(eq(m.S, "0")), sel(sel(d, m.S), kt))
	lsrt := arraySort(sortRef, sortIdx)
	l := vc.heapGet(st, base+".len", lsrt)
	vc.heapSet(st, base+".len", lsrt, vc.sc.define("h", lsrt, store(l, m.S, ite(was, bvSub(sel(l, m.S), i64(1)), sel(l, m.S)))))
	vc.heapSet(st, base+".dom", ds, vc.sc.define("h", ds, store(d, m.S, store(sel(d, m.S), kt, "false"))))
}

// ---------- range over map / string ----------

type rangeIter struct {
	X     Val
	isMap bool
	mt    *types.Map
	dom0  string // key set at range start
}

var rangeIters = map[*ssa.Range]*rangeIter{}

func (vc *VC) rangeStart(fr *Frame, st *State, ins *ssa.Range) Val {
	x := vc.value(fr, ins.X)
	it := &rangeIter{X: x}
	if mt, ok := ins.X.Type().Underlying().(*types.Map); ok {
		it.isMap = true
		it.mt = mt
		// ghost set of keys already produced by this range statement
		if ks, ok := vc.mapKeySort(mt); ok {
			if name := vc.visitedName(fr, ins); name != "" {
				gs := arraySort(ks, sortBool)
				st.ghost[name] = Val{K: KGhost, GSort: gs, S: fmt.Sprintf("((as const %s) false)", gs)}
			}
			// key set when the range statement starts (the loop may insert afterwards)
			d := vc.heapGet(st, "M:"+typeKey(mt)+".dom", arraySort(sortRef, arraySort(ks, sortBool)))
			it.dom0 = vc.sc.define("rng.dom0", arraySort(ks, sortBool), sel(d, x.S))
		}
	}
	rangeIters[ins] = it
	return Val{K: KRef, T: ins.Type(), S: "0"}
}

// visitedName: "visited<k>" where k is the ordinal of the loop driven by this range statement.
func (vc *VC) visitedName(fr *Frame, rg *ssa.Range) string {
	refs := rg.Referrers()
	if refs == nil {
		return ""
	}
	for _, r := range *refs {
		if nx, ok := r.(*ssa.Next); ok {
			if li := fr.loops[nx.Block()]; li != nil {
				return fmt.Sprintf("visited%d", li.ordinal)
			}
		}
	}
	return ""
}

// loopWritesMap: the loop driven by this Next inserts into a map of the ranged type.
func loopWritesMap(fr *Frame, ins *ssa.Next, mt *types.Map) bool {
	li := fr.loops[ins.Block()]
	if li == nil {
		return true
	}
	for b := range li.body {
		for _, in := range b.Instrs {
			switch in := in.(type) {
			case *ssa.MapUpdate:
				if types.Identical(in.Map.Type().Underlying(), mt) {
					return true
				}
			case *ssa.Call:
				if _, isB := in.Call.Value.(*ssa.Builtin); !isB {
					// calls may insert; be conservative unless the callee is known not to touch this map type
					if in.Call.IsInvoke() || in.Call.StaticCallee() == nil {
						continue
					}
				}
			}
		}
	}
	return false
}

// rangeNext for maps: yields a key that is in the map and has not been produced yet (in no
// particular order), or ok=false. When the loop does not insert into the map, ok=false implies
// that every key of the map has been produced (ghost set visited<k>).
func (vc *VC) rangeNext(fr *Frame, st *State, ins *ssa.Next) Val {
	rg, _ := ins.Iter.(*ssa.Range)
	it := rangeIters[rg]
	tt := ins.Type().(*types.Tuple)
	okv := vc.sc.fresh("rng.ok", sortBool)
	if it != nil && it.isMap {
		kt := it.mt.Key()
		k, _ := vc.symbolic(kt, "rng.key")
		vc.assume(st, vc.wf(st, k))
		v, found := vc.mapLookup(st, it.X, k, it.mt)
		vc.assume(st, implies(okv, found))
		vc.assume(st, implies(eq(vc.mapLen(st, it.X), i64(0)), not(okv)))
		name := vc.visitedName(fr, rg)
		if name == "" {
			// a range statement that is left after its first step (no back edge): the first step
			// fails only if the map is empty
			if ks, ok := vc.mapKeySort(it.mt); ok {
				base := "M:" + typeKey(it.mt)
				d := vc.heapGet(st, base+".dom", arraySort(sortRef, arraySort(ks, sortBool)))
				none := fmt.Sprintf("(forall ((k!q %s)) (! (not (select (select %s %s) k!q)) :pattern ((select (select %s %s) k!q))))", ks, d, it.X.S, d, it.X.S)
				vc.assume(st, implies(not(okv), none))
			}
		}
		if vis, has := st.ghost[name]; has && name != "" {
			if kterm, ok := vc.mapKeyTerm(k); ok {
				vc.assume(st, implies(okv, not(sel(vis.S, kterm))))
				if !loopWritesMap(fr, ins, it.mt) {
					ks, _ := vc.mapKeySort(it.mt)
					base := "M:" + typeKey(it.mt)
					d := vc.heapGet(st, base+".dom", arraySort(sortRef, arraySort(ks, sortBool)))
					all := fmt.Sprintf("(forall ((k!q %s)) (! (=> (select (select %s %s) k!q) (select %s k!q)) :pattern ((select (select %s %s) k!q))))", ks, d, it.X.S, vis.S, d, it.X.S)
					vc.assume(st, implies(not(okv), all))
				} else if it.dom0 != "" {
					// the loop may insert into a map of this type: keys present when the range started
					// and still present have all been produced (Go spec: entries added during iteration
					// may or may not be produced; entries not yet reached and removed are not)
					ks, _ := vc.mapKeySort(it.mt)
					base := "M:" + typeKey(it.mt)
					d := vc.heapGet(st, base+".dom", arraySort(sortRef, arraySort(ks, sortBool)))
					all := fmt.Sprintf("(forall ((k!q %s)) (! (=> (and (select %s k!q) (select (select %s %s) k!q)) (select %s k!q)) :pattern ((select (select %s %s) k!q))))", ks, it.dom0, d, it.X.S, vis.S, d, it.X.S)
					vc.assume(st, implies(not(okv), all))
				}
				st.ghost[name] = Val{K: KGhost, GSort: vis.GSort, S: vc.sc.define("vis", vis.GSort, ite(okv, store(vis.S, kterm, "true"), vis.S))}
			}
		}
		kk, vv := k, v
		if b, ok := tt.At(1).Type().(*types.Basic); ok && b.Kind() == types.Invalid {
			kk = Val{K: KScalar, T: types.Typ[types.Bool], S: "false"}
		}
		if b, ok := tt.At(2).Type().(*types.Basic); ok && b.Kind() == types.Invalid {
			vv = Val{K: KScalar, T: types.Typ[types.Bool], S: "false"}
		}
		return Val{K: KTuple, T: ins.Type(), F: []Val{boolVal(okv), kk, vv}}
	}
	// string iteration: arbitrary index/rune
	vc.note("range over string modelled as arbitrary (index, rune) sequence")
	k, _ := vc.symbolic(types.Typ[types.Int], "rng.idx")
	r, _ := vc.symbolic(types.Typ[types.Int32], "rng.rune")
	if it != nil && it.X.K == KScalar {
		vc.declStr()
		vc.assume(st, implies(okv, and(sx("bvsle", i64(0), k.S), sx("bvslt", k.S, sx("s.len", it.X.S)))))
	}
	return Val{K: KTuple, T: ins.Type(), F: []Val{boolVal(okv), k, r}}
}

// ---------- channels ----------

func (vc *VC) sendEffect(fr *Frame, st *State, ins *ssa.Send, pos token.Position) {
	// metrics channels and the like: no modelled effect. A ghost sequence is
	// attached when a contract declares one (ghost chan).
	ch := vc.value(fr, ins.Chan)
	x := vc.value(fr, ins.X)
	if g, ok := st.ghost["chan:"+ch.S]; ok {
		_ = g
		_ = x
	}
}

// ---------- defers and locks ----------

func (vc *VC) deferEffect(fr *Frame, st *State, ins *ssa.Defer, pos token.Position) {}

func (vc *VC) runDefers(fr *Frame, st *State, pos token.Position) {
	for i := len(fr.defers) - 1; i >= 0; i-- {
		d := fr.defers[i]
		callee := d.Call.StaticCallee()
		if callee == nil && !d.Call.IsInvoke() {
			// deferred function literal: run its body now
			fv := vc.value(fr, d.Call.Value)
			if fv.Clo != nil {
				fn := fv.Clo.Fn.(*ssa.Function)
				if fn.Blocks != nil && fr.depth < maxInlineDepth && vc.canInline(fn) {
					var args []Val
					for _, a := range d.Call.Args {
						args = append(args, vc.value(fr, a))
					}
					var ccon *Contract
					if isNestedIn(fn, fr.fn) {
						ccon = fr.con
					}
					_, out := vc.execFunc(fn, args, fv.Clo.Bindings, st, fr.depth+1, ccon, false)
					if out.pc != "false" {
						*st = *out
					}
					continue
				}
			}
			vc.note("deferred function value in %s not executed: heap havocked", funcKey(fr.fn))
			vc.havocAllHeap(st)
			continue
		}
		if callee == nil {
			if !vc.eng.isPureMethod(&d.Call) {
				vc.note("deferred interface call in %s: heap havocked", funcKey(fr.fn))
				vc.havocAllHeap(st)
			}
			continue
		}
		key := funcKey(callee)
		if isLockFunc(key) {
			vc.lockCall(fr, st, &d.Call, key, pos)
			continue
		}
		if vc.eng.isNoEffect(key) {
			continue
		}
		if mc, ok := d.Call.Value.(*ssa.MakeClosure); ok {
			fv := vc.value(fr, mc)
			fn := mc.Fn.(*ssa.Function)
			if fv.Clo != nil && fn.Blocks != nil && fr.depth < maxInlineDepth && vc.canInline(fn) {
				var args []Val
				for _, a := range d.Call.Args {
					args = append(args, vc.value(fr, a))
				}
				var ccon *Contract
				if isNestedIn(fn, fr.fn) {
					ccon = fr.con
				}
				_, out := vc.execFunc(fn, args, fv.Clo.Bindings, st, fr.depth+1, ccon, false)
				if out.pc != "false" {
					*st = *out
				}
				continue
			}
		}
		if con := vc.eng.cs.Funcs[key]; con != nil && !con.Flags["inline"] {
			var args []Val
			for _, a := range d.Call.Args {
				args = append(args, vc.value(fr, a))
			}
			vc.applyContract(fr, st, callee, con, args, pos, "deferred "+key)
			continue
		}
		if callee.Blocks != nil && fr.depth < maxInlineDepth && vc.canInline(callee) {
			var args []Val
			for _, a := range d.Call.Args {
				args = append(args, vc.value(fr, a))
			}
			_, out := vc.execFunc(callee, args, nil, st, fr.depth+1, nil, false)
			if out.pc != "false" {
				*st = *out
			}
			continue
		}
		vc.note("deferred call to %s in %s: heap havocked", key, funcKey(fr.fn))
		vc.havocAllHeap(st)
	}
}

func isLockFunc(key string) bool {
	switch key {
	case "sync.Mutex.Lock", "sync.Mutex.Unlock", "sync.RWMutex.Lock", "sync.RWMutex.Unlock", "sync.RWMutex.RLock", "sync.RWMutex.RUnlock":
		return true
	}
	return false
}

// lockCall tracks the lockset (used by guarded_by checks).
func (vc *VC) lockCall(fr *Frame, st *State, c *ssa.CallCommon, key string, pos token.Position) {
	if len(c.Args) == 0 {
		return
	}
	// the lockset follows the function under contract and its own closures only: inlined callees
	// acquire and release their own locks (checked when they are under contract themselves)
	if !(fr.top || (vc.topFn != nil && isNestedIn(fr.fn, vc.topFn))) {
		return
	}
	// a mutex is identified by the source-level access path of its operand (variable and field
	// names), assuming the variable is not reassigned between Lock and Unlock
	id := accessPath(c.Args[0])
	if id == "" {
		id = lockID(vc.value(fr, c.Args[0]))
	}
	if id == "" {
		return
	}
	switch key {
	case "sync.Mutex.Lock", "sync.RWMutex.Lock":
		st.locks[id] = 2
	case "sync.RWMutex.RLock":
		if st.locks[id] < 1 {
			st.locks[id] = 1
		}
	default:
		delete(st.locks, id)
	}
}

func lockID(mu Val) string {
	if mu.K != KPtr || mu.L == nil {
		return ""
	}
	prefix, _, _ := pathPrefix(mu.L.Base, mu.L.Path)
	switch mu.L.Kind {
	case locObj:
		return typeKey(mu.L.Base) + prefix + "@" + mu.L.Ref
	case locCell:
		return "cell:" + mu.L.Cell.Name + prefix
	}
	return ""
}

// lockCheck enforces guarded_by declarations: fields declared guarded must be
// accessed with the guarding mutex of the same object held (write mode for stores).
func (vc *VC) lockCheck(fr *Frame, st *State, l *Loc, write bool, pos token.Position) {
	if len(vc.eng.guards) == 0 || l.Kind != locObj || len(l.Path) == 0 {
		return
	}
	prefix, _, _ := pathPrefix(l.Base, l.Path[:1])
	g, ok := vc.eng.guards[typeKey(l.Base)+prefix]
	if !ok {
		return
	}
	if !vc.eng.lockScope[funcKey(fr.fn)] {
		return
	}
	id := typeKey(l.Base) + "." + g + "@" + l.Ref
	mode := st.locks[id]
	need := 1
	if write {
		need = 2
	}
	goal := "true"
	if mode < need {
		goal = "false"
	}
	what := "read"
	if write {
		what = "write"
	}
	vc.oblige(st, "lockset", fmt.Sprintf("%s#lockset.%s:%s%s", funcKey(fr.fn), what, typeKey(l.Base), prefix),
		fmt.Sprintf("%s of %s%s requires %s held (mode %d, have %d)", what, typeKey(l.Base), prefix, g, need, mode), pos, goal)
}

// accessPath: source-level path of a pointer operand: locals, parameters and captured variables
// by name, fields by name.
func accessPath(v ssa.Value) string {
	switch x := v.(type) {
	case *ssa.Parameter:
		return x.Name()
	case *ssa.FreeVar:
		return x.Name()
	case *ssa.Alloc:
		return x.Comment
	case *ssa.Global:
		return x.Name()
	case *ssa.UnOp:
		if x.Op == token.MUL {
			return accessPath(x.X)
		}
	case *ssa.FieldAddr:
		b := accessPath(x.X)
		if b == "" {
			return ""
		}
		st := x.X.Type().Underlying().(*types.Pointer).Elem().Underlying().(*types.Struct)
		return b + "." + st.Field(x.Field).Name()
	}
	return ""
}
