package main

import (
	"bufio"
	"fmt"
	"go/ast"
	"go/constant"
	"go/token"
	"go/types"
	"os"
	"path/filepath"
	"sort"
	"strings"

	"golang.org/x/tools/go/packages"
	"golang.org/x/tools/go/ssa"
	"golang.org/x/tools/go/ssa/ssautil"
)

type Engine struct {
	prog          *ssa.Program
	fset          *token.FileSet
	pkgs          map[string]*packages.Package
	ssaPkgs       map[string]*ssa.Package
	cs            *ContractSet
	funcs         map[string]*ssa.Function
	inlineOK      map[*ssa.Function]bool
	usedTrusted   map[string]bool
	usedContracts map[string]bool
	pureMethods   map[string]bool
	guards        map[string]string // "pkg.T.field" -> mutex field name
	lockScope     map[string]bool
	acqCache      map[*ssa.Function]map[string]bool
	fileLines     map[string][]string
	noEffect      []string
	repo          string
	globalTables  map[types.Object][]constant.Value // immutable package-level lookup tables
	nonNilGlobals map[types.Object]bool             // package-level error values created once and never reassigned
}

var defaultNoEffect = []string{
	"github.com/janelia-flyem/dvid/dvid.Infof", "github.com/janelia-flyem/dvid/dvid.Debugf", "github.com/janelia-flyem/dvid/dvid.Errorf",
	"github.com/janelia-flyem/dvid/dvid.Criticalf", "github.com/janelia-flyem/dvid/dvid.Warningf", "github.com/janelia-flyem/dvid/dvid.TimeInfof",
	"github.com/janelia-flyem/dvid/dvid.TimeDebugf", "github.com/janelia-flyem/dvid/dvid.TimeErrorf", "github.com/janelia-flyem/dvid/dvid.TimeWarningf",
	"github.com/janelia-flyem/dvid/dvid.TimeCriticalf", "github.com/janelia-flyem/dvid/dvid.NewTimeLog", "github.com/janelia-flyem/dvid/dvid.TimeLog.",
	"log.Printf", "log.Println", "log.Print", "fmt.Printf", "fmt.Println", "fmt.Print", "fmt.Fprintf",
	"github.com/janelia-flyem/dvid/dvid.SendEmail",
	"sync.WaitGroup.", "sync/atomic.", "time.Sleep", "runtime.Gosched", "math/rand.", "time.Time.", "time.Duration.",
	"encoding/gob.", "github.com/janelia-flyem/dvid/dvid.NewUUID",
	"github.com/janelia-flyem/dvid/server.ThrottledOpStart", "github.com/janelia-flyem/dvid/server.ThrottledOpDone",
}

// default pure interface methods (trusted: stable results that depend only on the receiver)
var defaultPureMethods = []string{
	"github.com/janelia-flyem/dvid/dvid.Point.Prod",
	"github.com/janelia-flyem/dvid/dvid.Point.Value",
	"github.com/janelia-flyem/dvid/dvid.Point.NumDims",
	"github.com/janelia-flyem/dvid/dvid.Data.InstanceID",
	"github.com/janelia-flyem/dvid/dvid.Data.DataName",
	"github.com/janelia-flyem/dvid/dvid.Data.DataUUID",
	"github.com/janelia-flyem/dvid/dvid.Data.TypeName",
	"github.com/janelia-flyem/dvid/dvid.Data.RootUUID",
	"github.com/janelia-flyem/dvid/dvid.Data.RootVersionID",
	"github.com/janelia-flyem/dvid/dvid.Data.Versioned",
	"github.com/janelia-flyem/dvid/dvid.Data.IsDeleted",
	"github.com/janelia-flyem/dvid/storage.Context.VersionID",
	"github.com/janelia-flyem/dvid/storage.Context.Versioned",
	"github.com/janelia-flyem/dvid/storage.VersionedCtx.VersionID",
	"github.com/janelia-flyem/dvid/storage.VersionedCtx.Versioned",
	"github.com/janelia-flyem/dvid/storage.Context.ConstructKey",
	"github.com/janelia-flyem/dvid/storage.VersionedCtx.ConstructKey",
	"github.com/janelia-flyem/dvid/storage.VersionedCtx.TombstoneKey",
	"github.com/janelia-flyem/dvid/storage.VersionedCtx.UnversionedKeyPrefix",
	"github.com/janelia-flyem/dvid/storage.VersionedCtx.MinVersionKey",
	"github.com/janelia-flyem/dvid/storage.VersionedCtx.MaxVersionKey",
	"github.com/janelia-flyem/dvid/datastore.DataService.IsMutationRequest",
	"github.com/janelia-flyem/dvid/datastore.DataService.IsDeleted",
	"github.com/janelia-flyem/dvid/datastore.DataService.DataName",
	"github.com/janelia-flyem/dvid/datastore.DataService.DataUUID",
	"github.com/janelia-flyem/dvid/datastore.DataService.InstanceID",
	"github.com/janelia-flyem/dvid/datastore.DataService.TypeName",
	"github.com/janelia-flyem/dvid/datastore.DataService.RootUUID",
	"github.com/janelia-flyem/dvid/datastore.DataService.Versioned",
	"github.com/janelia-flyem/dvid/dvid.Point.Value",
	"github.com/janelia-flyem/dvid/dvid.Point.NumDims",
}

func (e *Engine) isNoEffect(key string) bool {
	for _, p := range e.noEffect {
		if key == p || (strings.HasSuffix(p, ".") && strings.HasPrefix(key, p)) {
			return true
		}
	}
	return false
}

func (e *Engine) isPureMethod(c *ssa.CallCommon) bool {
	return e.pureMethods[ifaceMethodKey(c)] || e.isStoreMethod(c)
}

// isStoreMethod: methods of the storage engine interfaces (package storage) operate on the
// external store only; they are trusted not to modify objects of the program heap.
func (e *Engine) isStoreMethod(c *ssa.CallCommon) bool {
	t := c.Value.Type()
	switch ifaceMethodKey(c) {
	case "github.com/janelia-flyem/dvid/storage.VersionedCtx.VersionedKeyValue", "github.com/janelia-flyem/dvid/storage.VersionedCtx.GetBestKeyVersion",
		"github.com/janelia-flyem/dvid/storage.Filter.Check":
		// resolver entry points: read-only on the program heap (verified: datastore.VersionedCtx.* declare `modifies nothing`)
		return true
	case "io.Writer.Write", "net/http.ResponseWriter.Write", "net/http.ResponseWriter.WriteHeader":
		// output sinks (HTTP responses, buffers handed in by the caller): TRUSTED not to modify objects of the
		// modelled program heap (listed in DESIGN section 9.1)
		return true
	}
	n, ok := t.(*types.Named)
	if !ok || n.Obj().Pkg() == nil || n.Obj().Pkg().Path() != modPath+"/storage" {
		return false
	}
	switch n.Obj().Name() {
	case "KeyValueDB", "OrderedKeyValueDB", "KeyValueGetter", "KeyValueSetter", "OrderedKeyValueGetter", "OrderedKeyValueSetter",
		"Batch", "KeyValueBatcher", "RequestBuffer", "BufferableOps", "KeyValueTimestampGetter", "BlobStore", "WriteLog", "ReadLog", "LogReadable", "LogWritable":
		return true
	}
	return false
}

func (e *Engine) typesPkg(path string) *types.Package {
	if p, ok := e.pkgs[path]; ok {
		return p.Types
	}
	return nil
}

func (e *Engine) loadLines(filename string) []string {
	ls, ok := e.fileLines[filename]
	if !ok {
		f, err := os.Open(filename)
		if err == nil {
			sc := bufio.NewScanner(f)
			sc.Buffer(make([]byte, 1<<20), 1<<20)
			for sc.Scan() {
				ls = append(ls, sc.Text())
			}
			f.Close()
		}
		e.fileLines[filename] = ls
	}
	return ls
}

// lineText: normalised source line, truncated (used in obligation names).
func (e *Engine) lineText(p token.Position) string {
	t := e.lineTextFull(p)
	if len(t) > 70 {
		t = t[:70]
	}
	return t
}

// lineTextFull: normalised source line without its trailing comment.
func (e *Engine) lineTextFull(p token.Position) string {
	if !p.IsValid() {
		return "?"
	}
	ls := e.loadLines(p.Filename)
	if p.Line-1 < len(ls) && p.Line >= 1 {
		t := strings.Join(strings.Fields(ls[p.Line-1]), " ")
		if i := strings.Index(t, "//"); i > 0 {
			t = strings.TrimSpace(t[:i])
		}
		return t
	}
	return "?"
}

const modPath = "github.com/janelia-flyem/dvid"

func loadEngine(repo string, patterns []string) (*Engine, error) {
	cfg := &packages.Config{Mode: packages.LoadAllSyntax, Dir: repo, BuildFlags: []string{"-tags=verif badger"},
		Env: append(os.Environ(), "GOFLAGS=-mod=mod", "GOPROXY=off", "GOSUMDB=off", "GOTOOLCHAIN=local")}
	pkgs, err := packages.Load(cfg, patterns...)
	if err != nil {
		return nil, err
	}
	var errs []string
	packages.Visit(pkgs, nil, func(p *packages.Package) {
		for _, e := range p.Errors {
			errs = append(errs, e.Error())
		}
	})
	if len(errs) > 0 {
		return nil, fmt.Errorf("package errors:\n%s", strings.Join(errs, "\n"))
	}
	prog, _ := ssautil.AllPackages(pkgs, ssa.NaiveForm|ssa.GlobalDebug)
	prog.Build()
	e := &Engine{prog: prog, fset: prog.Fset, pkgs: map[string]*packages.Package{}, ssaPkgs: map[string]*ssa.Package{},
		cs: newContractSet(), funcs: map[string]*ssa.Function{}, inlineOK: map[*ssa.Function]bool{},
		usedTrusted: map[string]bool{}, usedContracts: map[string]bool{}, pureMethods: map[string]bool{},
		guards: map[string]string{}, lockScope: map[string]bool{}, fileLines: map[string][]string{}, repo: repo}
	e.noEffect = append(e.noEffect, defaultNoEffect...)
	for _, m := range defaultPureMethods {
		e.pureMethods[m] = true
	}
	packages.Visit(pkgs, nil, func(p *packages.Package) {
		e.pkgs[p.PkgPath] = p
	})
	for _, sp := range prog.AllPackages() {
		e.ssaPkgs[sp.Pkg.Path()] = sp
	}
	for fn := range ssautil.AllFunctions(prog) {
		if fn.Synthetic != "" && fn.Blocks == nil {
			continue
		}
		if fn.Synthetic != "" && !strings.HasPrefix(fn.Synthetic, "package init") {
			// wrappers/bound methods: skip (the underlying declared function is indexed)
			continue
		}
		k := funcKey(fn)
		if old, ok := e.funcs[k]; ok && old != fn {
			continue
		}
		e.funcs[k] = fn
	}
	e.findGlobalTables()
	// contract files: zz_verif_contracts*.go in module packages, plus /verif/specs/*.spec
	for path, p := range e.pkgs {
		if !strings.HasPrefix(path, modPath) {
			continue
		}
		for _, f := range p.GoFiles {
			if strings.HasPrefix(filepath.Base(f), "zz_verif_") {
				if err := e.cs.loadContractFile(f, path); err != nil {
					return nil, err
				}
			}
		}
	}
	return e, nil
}

func (e *Engine) loadSpecDir(dir string) error {
	fs, _ := filepath.Glob(filepath.Join(dir, "*.spec"))
	sort.Strings(fs)
	for _, f := range fs {
		if err := e.cs.loadContractFile(f, ""); err != nil {
			return err
		}
	}
	return nil
}

// ghostCall intercepts calls to ghost helper functions (none yet).
func (vc *VC) ghostCall(fr *Frame, st *State, key string, callee *ssa.Function, args []Val, c *ssa.CallCommon, pos token.Position) *Val {
	return nil
}

func newVC(e *Engine, root string) *VC {
	return &VC{eng: e, sc: newScript(), root: root, notes: map[string]bool{}, heapSorts: map[string]string{},
		strLits: map[string]string{}, typeTags: map[string]int{}, nameCount: map[string]int{}, inputs: map[string]string{}}
}

// verifyFunc generates all obligations for one function under its contract.
func (e *Engine) verifyFunc(fn *ssa.Function, con *Contract) *VC {
	key := funcKey(fn)
	vc := newVC(e, key)
	vc.topFn = fn
	vc.topCon = con
	if con != nil && con.Flags["safety_off"] {
		vc.safetyOff = true
		vc.note("safety_off: panic-freedom of this function is not checked")
	}
	if con != nil && con.Flags["requires_off"] {
		vc.requiresOff = true
		vc.note("requires_off: preconditions of callees under contract are ASSUMED here (their postconditions are used)")
	}
	if con != nil && con.Flags["calls_havoc"] {
		vc.callsHavoc = true
		vc.note("calls_havoc: preconditions of callees under contract are not checked and their postconditions are not used (only their frames)")
	}
	if con != nil && con.Flags["structural"] {
		// structural contracts: only the checks that need no symbolic execution (goroutine/parent races on
		// captured variables); meant for request dispatchers too large to execute
		vc.note("structural: the body is not executed symbolically; only structural obligations are generated")
		vc.goraceObligations(fn)
		return vc
	}
	if con != nil {
		vc.goraceObligations(fn)
	}
	st := &State{pc: "true", cells: map[*Cell]Val{}, heap: map[string]string{}, epoch: "0", ghost: map[string]Val{}, locks: map[string]int{}}
	if con != nil {
		for l, m := range con.Holds {
			st.locks[l] = m
		}
	}
	st.next = vc.sc.fresh("next0", sortRef)
	vc.sc.assert(sx(">", st.next, "0"))
	next0 := st.next
	vc.next0 = next0
	var args []Val
	for _, p := range fn.Params {
		v, ok := vc.symbolic(p.Type(), "p."+p.Name())
		if !ok {
			vc.note("parameter %s has components outside the modelled subset", p.Name())
		}
		vc.assume(st, vc.wf(st, v))
		args = append(args, v)
		if f, ok := flatten(v); ok {
			for i, lf := range leavesOf(p.Type()) {
				vc.inputs[p.Name()+lf.path] = f[i]
			}
		}
	}
	pre := st.clone()
	if con != nil {
		env := vc.contractEnv(fn, args, st, pre, nil)
		for _, ax := range e.cs.Axioms {
			_ = ax
		}
		for _, r := range con.Requires {
			t := env.evalBool(r.Expr)
			if env.err != nil {
				vc.unsupported("requires %q: %v", r.Src, env.err)
				vc.oblige(st, "ensures", key+"#requires-evaluable", "precondition cannot be evaluated ("+env.err.Error()+"): "+r.Src, e.fset.Position(fn.Pos()), "false")
				env.err = nil
				continue
			}
			vc.assume(st, t)
		}
		if len(con.Requires) > 0 {
			vc.obls = append(vc.obls, &Obligation{Name: key + "#cover.requires", Kind: "cover", Desc: "precondition is satisfiable", Pos: e.fset.Position(fn.Pos()),
				PC: st.pc, Goal: "false", Mark: vc.sc.mark(), Func: key, Cover: true})
		}
	}
	if con != nil {
		genv := vc.contractEnv(fn, args, st, pre, nil)
		for _, g := range con.Ghosts {
			if strings.HasPrefix(g.Type, "set[") && strings.HasSuffix(g.Type, "]") {
				// ghost sets: `ghost F set[int] = empty` (membership F[k], updates setadd(F,k) / setdel(F,k))
				kt := resolveType(g.Type[4:len(g.Type)-1], pkgOf(fn))
				if kt == nil {
					vc.unsupported("ghost %s: unknown key type %s", g.Name, g.Type)
					continue
				}
				ls := leavesOf(kt)
				if len(ls) != 1 || ls[0].bad {
					vc.unsupported("ghost %s: set key type must be scalar", g.Name)
					continue
				}
				gs := arraySort(ls[0].sort, sortBool)
				st.ghost[g.Name] = Val{K: KGhost, GSort: gs, S: fmt.Sprintf("((as const %s) false)", gs)}
				continue
			}
			gt := resolveType(g.Type, pkgOf(fn))
			var v Val
			if g.Init.Op == "call" && g.Init.Name == "arbitrary" && gt != nil {
				v, _ = vc.symbolic(gt, "ghost."+g.Name)
			} else if g.Init.Op == "nil" && gt != nil {
				v = vc.zero(gt)
			} else {
				v = genv.eval(g.Init)
			}
			if gt == nil || genv.err != nil {
				vc.unsupported("ghost %s: %v", g.Name, genv.err)
				genv.err = nil
				continue
			}
			if v.K == KConst {
				v = vc.convert(st, v, gt, token.Position{})
			}
			st.ghost[g.Name] = v
		}
	}
	var free []Val
	for _, fv := range fn.FreeVars {
		v, _ := vc.symbolic(fv.Type(), "fv."+fv.Name())
		vc.assume(st, vc.wf(st, v))
		if v.K == KPtr && v.L != nil {
			vc.assume(st, not(eq(v.L.Ref, "0")))
		}
		free = append(free, v)
	}
	entry := st.clone()
	res, out := vc.execFunc(fn, args, free, st, 0, con, true)
	vc.obls = append(vc.obls, &Obligation{Name: key + "#cover.exit", Kind: "cover", Desc: "some return is reachable (assumptions are consistent)", Pos: e.fset.Position(fn.Pos()),
		PC: out.pc, Goal: "false", Mark: vc.sc.mark(), Func: key, Cover: true})
	if con != nil {
		_ = res
		// the postcondition is checked at every return site separately (simpler VCs than on the merged exit)
		for _, r := range vc.topRets {
			post := vc.contractEnv(fn, args, r.st, entry, r.vals)
			site := e.lineText(e.fset.Position(r.pos))
			for i, en := range con.Ensures {
				t := post.evalBool(en.Expr)
				if post.err != nil {
					vc.unsupported("ensures %q: %v", en.Src, post.err)
					vc.oblige(r.st, "ensures", fmt.Sprintf("%s#ensures%d@%s", key, i+1, site), "postcondition cannot be evaluated ("+post.err.Error()+"): "+en.Src, e.fset.Position(r.pos), "false")
					post.err = nil
					continue
				}
				vc.oblige(r.st, "ensures", fmt.Sprintf("%s#ensures%d@%s", key, i+1, site), "postcondition: "+en.Src, e.fset.Position(r.pos), t)
			}
		}
		if con.Flags["lockbalance"] {
			// every mutex acquired by the function is released again on every return path
			for _, r := range vc.topRets {
				var leaked []string
				for l, m := range r.st.locks {
					if strings.HasPrefix(l, "#n:") {
						continue
					}
					if _, atEntry := entry.locks[l]; !atEntry && m != 0 {
						leaked = append(leaked, l)
					}
				}
				sort.Strings(leaked)
				site := e.lineText(e.fset.Position(r.pos))
				goal := "true"
				desc := "all mutexes acquired here are released on this return path"
				if len(leaked) > 0 {
					goal = "false"
					desc = "return path leaves mutex locked: " + strings.Join(leaked, ", ")
				}
				vc.oblige(r.st, "ensures", fmt.Sprintf("%s#lockbalance@%s", key, site), desc, e.fset.Position(r.pos), goal)
			}
		}
		for i, cl := range con.Asserts {
			if !vc.firedAnchors[cl] {
				vc.oblige(out, "assert", fmt.Sprintf("%s#anchor%d", key, i+1), fmt.Sprintf("anchor %q of a %s clause matches no executed source line", cl.Match, cl.Kind), e.fset.Position(fn.Pos()), "false")
			}
		}
		vc.frameObligations(fn, con, args, entry, out, next0)
	}
	return vc
}

// frameObligations: objects that existed at entry are unchanged except as declared by modifies.
func (vc *VC) frameObligations(fn *ssa.Function, con *Contract, args []Val, entry, out *State, next0 string) {
	pos := vc.eng.fset.Position(fn.Pos())
	for _, g := range vc.frameGoals(fn, con, args, entry, out, next0) {
		vc.oblige(out, "frame", g.name, g.desc, pos, g.goal)
	}
}

type frameGoal struct{ name, desc, goal string }

// frameGoals: the formulas stating that objects that existed at entry are unchanged in state out
// except as declared by the modifies clauses (evaluated in the entry state).
func (vc *VC) frameGoals(fn *ssa.Function, con *Contract, args []Val, entry, out *State, next0 string) (goals []frameGoal) {
	key := funcKey(fn)
	for _, m := range con.Modifies {
		if m == "*" {
			return
		}
		if strings.HasPrefix(m, "*\\") {
			for _, k := range strings.Split(m[2:], "\\") {
				k = strings.TrimSpace(k)
				srt, ok := vc.heapSorts[k]
				if !ok {
					continue
				}
				h0 := vc.heapGet(entry, k, srt)
				h1 := vc.heapGet(out, k, srt)
				if h0 == h1 {
					continue
				}
				goals = append(goals, frameGoal{key + "#frame:" + k, "frame: pre-existing objects of " + k + " unchanged",
					fmt.Sprintf("(forall ((r!q Int)) (=> (< r!q %s) (= (select %s r!q) (select %s r!q))))", next0, h1, h0)})
			}
			return
		}
	}
	if out.epoch != entry.epoch {
		goals = append(goals, frameGoal{key + "#frame.unknown-effects", "function calls code with unknown effects but declares a frame", "false"})
		return
	}
	env := vc.contractEnv(fn, args, entry, entry, nil)
	type exc struct {
		ref    string
		lo, hi string // for element ranges (absolute indices), "" for whole object
	}
	excs := map[string][]exc{} // heap var -> exceptions
	for _, m := range con.Modifies {
		if strings.HasPrefix(m, "ghost ") {
			continue
		}
		if strings.HasSuffix(m, "[*]") || strings.HasSuffix(m, "[*cap]") {
			ex, err := parseSpecExpr(strings.TrimSuffix(strings.TrimSuffix(m, "[*]"), "[*cap]"))
			if err != nil {
				continue
			}
			v := arrayAsSlice(env.eval(ex))
			if strings.HasSuffix(m, "[*cap]") && v.K == KSlice {
				v.Sl[2] = v.Sl[3]
			}
			if v.K == KRef && v.T != nil {
				if mt, ok := v.T.Underlying().(*types.Map); ok {
					for hn := range vc.mapHeaps(mt) {
						excs[hn] = append(excs[hn], exc{ref: v.S})
					}
				}
				continue
			}
			if v.K != KSlice {
				continue
			}
			et := v.T.Underlying().(*types.Slice).Elem()
			for _, lf := range leavesOf(et) {
				excs[elemHeap(et, lf.path)] = append(excs[elemHeap(et, lf.path)], exc{v.Sl[0], v.Sl[1], bvAdd(v.Sl[1], v.Sl[2])})
			}
			continue
		}
		if i := strings.LastIndexByte(m, '.'); i > 0 {
			ex, err := parseSpecExpr(m[:i])
			if err != nil {
				continue
			}
			v := env.eval(ex)
			f := m[i+1:]
			if v.K == KPtr && v.L != nil && v.L.Kind == locObj {
				t := v.L.Base
				if stt, ok := t.Underlying().(*types.Struct); ok {
					for k := 0; k < stt.NumFields(); k++ {
						if f != "*" && stt.Field(k).Name() != f {
							continue
						}
						for _, lf := range leavesOf(stt.Field(k).Type()) {
							hn := fieldHeap(t, "."+stt.Field(k).Name()+lf.path)
							excs[hn] = append(excs[hn], exc{ref: v.L.Ref})
						}
					}
				} else if f == "*" {
					for _, lf := range leavesOf(t) {
						hn := fieldHeap(t, lf.path)
						excs[hn] = append(excs[hn], exc{ref: v.L.Ref})
					}
				}
			}
		}
	}
	var names []string
	for n := range out.heap {
		names = append(names, n)
	}
	sort.Strings(names)
	wholeVars := map[string]bool{}
	for _, m := range con.Modifies {
		if strings.HasPrefix(m, "heap ") {
			wholeVars[strings.TrimSpace(m[5:])] = true
		}
	}
	for _, n := range names {
		srt := vc.heapSorts[n]
		h0 := vc.heapGet(entry, n, srt)
		h1 := out.heap[n]
		if h0 == h1 || wholeVars[n] {
			continue
		}
		r := "r!q"
		var conds []string
		conds = append(conds, sx("<", r, next0))
		body := eq(sel(h1, r), sel(h0, r))
		for _, x := range excs[n] {
			if x.lo == "" {
				conds = append(conds, not(eq(r, x.ref)))
			}
		}
		goal := fmt.Sprintf("(forall ((%s Int)) (=> %s %s))", r, and(conds...), body)
		// element ranges: for the excepted arrays only indices outside the range are preserved
		var extra []string
		for _, x := range excs[n] {
			if x.lo != "" {
				// weaken main goal to exclude this array, add a per-index goal
				goal = fmt.Sprintf("(forall ((%s Int)) (=> %s %s))", r, and(append(conds, not(eq(r, x.ref)))...), body)
				i := "i!q"
				extra = append(extra, fmt.Sprintf("(forall ((%s %s)) (=> (not (and (bvsle %s %s) (bvslt %s %s))) (= (select (select %s %s) %s) (select (select %s %s) %s))))",
					i, sortIdx, x.lo, i, i, x.hi, h1, x.ref, i, h0, x.ref, i))
			}
		}
		goals = append(goals, frameGoal{key + "#frame:" + n, "frame: " + n + " unchanged for pre-existing objects", and(append([]string{goal}, extra...)...)})
	}
	return
}

// findGlobalTables: package-level array/slice variables of the module that are initialised by a
// composite literal of constants and never assigned afterwards (checked over all SSA functions)
// are lookup tables; their contents are taken from the source.
func (e *Engine) findGlobalTables() {
	e.globalTables = map[types.Object][]constant.Value{}
	e.nonNilGlobals = map[types.Object]bool{}
	cand := map[types.Object][]constant.Value{}
	for path, p := range e.pkgs {
		if !strings.HasPrefix(path, modPath) || p.TypesInfo == nil {
			continue
		}
		for _, f := range p.Syntax {
			for _, d := range f.Decls {
				gd, ok := d.(*ast.GenDecl)
				if !ok || gd.Tok != token.VAR {
					continue
				}
				for _, sp := range gd.Specs {
					vs, ok := sp.(*ast.ValueSpec)
					if ok && len(vs.Names) == len(vs.Values) {
						// var ErrX = errors.New(...) / fmt.Errorf(...)
						for i, val := range vs.Values {
							if call, isCall := val.(*ast.CallExpr); isCall {
								if sel, isSel := call.Fun.(*ast.SelectorExpr); isSel {
									if id, isID := sel.X.(*ast.Ident); isID && ((id.Name == "errors" && sel.Sel.Name == "New") || (id.Name == "fmt" && sel.Sel.Name == "Errorf")) {
										if obj := p.TypesInfo.Defs[vs.Names[i]]; obj != nil {
											e.nonNilGlobals[obj] = true
										}
									}
								}
							}
						}
					}
					if !ok || len(vs.Names) != 1 || len(vs.Values) != 1 {
						continue
					}
					cl, ok := vs.Values[0].(*ast.CompositeLit)
					if !ok {
						continue
					}
					obj := p.TypesInfo.Defs[vs.Names[0]]
					if obj == nil {
						continue
					}
					if _, isArr := obj.Type().Underlying().(*types.Array); !isArr {
						continue
					}
					var vals []constant.Value
					good := true
					for _, el := range cl.Elts {
						if _, kv := el.(*ast.KeyValueExpr); kv {
							good = false
							break
						}
						tv, ok := p.TypesInfo.Types[el]
						if !ok || tv.Value == nil {
							good = false
							break
						}
						vals = append(vals, tv.Value)
					}
					if good && len(vals) > 0 {
						cand[obj] = vals
					}
				}
			}
		}
	}
	if len(cand) == 0 && len(e.nonNilGlobals) == 0 {
		return
	}
	// any store whose address is rooted at the global (outside package initialisation) disqualifies it
	for fn := range ssautil.AllFunctions(e.prog) {
		if fn.Name() == "init" || strings.HasPrefix(fn.Name(), "init#") {
			continue
		}
		for _, b := range fn.Blocks {
			for _, in := range b.Instrs {
				var addr ssa.Value
				switch x := in.(type) {
				case *ssa.Store:
					addr = x.Addr
				case *ssa.Slice:
					addr = x.X
				default:
					continue
				}
				for {
					switch a := addr.(type) {
					case *ssa.IndexAddr:
						addr = a.X
						continue
					case *ssa.FieldAddr:
						addr = a.X
						continue
					case *ssa.Global:
						delete(cand, a.Object())
						delete(e.nonNilGlobals, a.Object())
					}
					break
				}
			}
		}
	}
	e.globalTables = cand
}

// goraceObligations: a local variable that is captured by a closure started with `go`, WRITTEN by that
// closure, and also accessed by the enclosing function at a point reachable from the go statement is a
// data race unless some synchronisation orders the two (which this structural check does not see: a
// contract may list such variables with `gosync <var>` together with the reason). One obligation per
// (variable, go statement), named #gorace:<var>@<source line of the go statement>; it fails outright
// (no solver needed) when the pattern is present.
func (vc *VC) goraceObligations(fn *ssa.Function) {
	key := funcKey(fn)
	var walk func(f *ssa.Function)
	seen := map[*ssa.Function]bool{}
	walk = func(f *ssa.Function) {
		if seen[f] || f.Blocks == nil {
			return
		}
		seen[f] = true
		for _, b := range f.Blocks {
			for idx, ins := range b.Instrs {
				g, ok := ins.(*ssa.Go)
				if !ok {
					continue
				}
				mc, ok := g.Call.Value.(*ssa.MakeClosure)
				if !ok {
					continue
				}
				cf, ok := mc.Fn.(*ssa.Function)
				if !ok || cf.Blocks == nil {
					continue
				}
				for bi, bind := range mc.Bindings {
					al, ok := bind.(*ssa.Alloc)
					if !ok || al.Parent() != f || bi >= len(cf.FreeVars) {
						continue
					}
					if !closureWrites(cf, cf.FreeVars[bi], map[*ssa.Function]bool{}) {
						continue
					}
					if vc.topCon != nil && vc.topCon.Gosync[al.Comment] {
						continue
					}
					if acc := accessAfter(f, b, idx, al, mc); acc != nil {
						pos := vc.eng.fset.Position(g.Pos())
						apos := vc.eng.fset.Position(acc.Pos())
						name := fmt.Sprintf("%s#gorace:%s@%s", key, al.Comment, strings.TrimSpace(vc.eng.lineText(pos)))
						vc.obls = append(vc.obls, &Obligation{Name: name, Kind: "lockset",
							Desc: fmt.Sprintf("variable %s is written by the goroutine started here and accessed by %s afterwards (%s:%d) with no synchronisation visible", al.Comment, f.Name(), shortFile(apos.Filename), apos.Line),
							Pos:  pos, PC: "true", Goal: "false", Mark: vc.sc.mark(), Func: key})
					}
				}
			}
		}
		for _, af := range f.AnonFuncs {
			walk(af)
		}
	}
	n0 := len(vc.obls)
	walk(fn)
	if len(vc.obls) == n0 && vc.topCon != nil && vc.topCon.Flags["structural"] {
		vc.obls = append(vc.obls, &Obligation{Name: key + "#gorace.none", Kind: "lockset",
			Desc: "no variable written by a goroutine started in this function is accessed by the function afterwards",
			Pos:  vc.eng.fset.Position(fn.Pos()), PC: "true", Goal: "true", Mark: vc.sc.mark(), Func: key})
	}
}

// closureWrites: the closure (or a closure nested in it that captures the same variable) stores to fv.
func closureWrites(cf *ssa.Function, fv *ssa.FreeVar, seen map[*ssa.Function]bool) bool {
	if seen[cf] {
		return false
	}
	seen[cf] = true
	for _, b := range cf.Blocks {
		for _, ins := range b.Instrs {
			switch ins := ins.(type) {
			case *ssa.Store:
				if ins.Addr == fv {
					return true
				}
			case *ssa.MakeClosure:
				if inner, ok := ins.Fn.(*ssa.Function); ok {
					for bi, bind := range ins.Bindings {
						if bind == fv && bi < len(inner.FreeVars) && closureWrites(inner, inner.FreeVars[bi], seen) {
							return true
						}
					}
				}
			}
		}
	}
	return false
}

// accessAfter: an instruction of f, reachable from position (b, idx) exclusive, that loads from or stores
// to the alloc (other than the MakeClosure that captured it).
func accessAfter(f *ssa.Function, b *ssa.BasicBlock, idx int, al *ssa.Alloc, skip ssa.Instruction) ssa.Instruction {
	uses := func(ins ssa.Instruction) bool {
		if ins == skip {
			return false
		}
		switch ins := ins.(type) {
		case *ssa.Store:
			return ins.Addr == al
		case *ssa.UnOp:
			return ins.Op == token.MUL && ins.X == al
		}
		return false
	}
	for _, ins := range b.Instrs[idx+1:] {
		if uses(ins) {
			return ins
		}
	}
	visited := map[*ssa.BasicBlock]bool{}
	var stack []*ssa.BasicBlock
	stack = append(stack, b.Succs...)
	for len(stack) > 0 {
		x := stack[len(stack)-1]
		stack = stack[:len(stack)-1]
		if visited[x] {
			continue
		}
		visited[x] = true
		for _, ins := range x.Instrs {
			if uses(ins) {
				return ins
			}
		}
		stack = append(stack, x.Succs...)
	}
	return nil
}
