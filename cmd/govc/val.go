package main

// Symbolic values: Go-side structured values whose leaves are SMT terms.

import (
	"fmt"
	"go/types"
	"math/big"
	"regexp"
	"strings"
)

type Kind int

const (
	KScalar Kind = iota // bool, integers, string (Str), float (Flt)
	KSlice              // arr, off, len, cap
	KStruct             // F = fields
	KPtr                // L = location
	KIface              // tag, payload
	KArray              // S = SMT array term (scalar elements only)
	KTuple              // F = elements
	KRef                // map, chan, func, unsafe.Pointer, opaque: S = Int term
	KConst              // untyped integer constant of the spec language
	KBad                // unsupported value (poison)
	KGhost              // ghost value of a spec-only sort (S = term, GSort = its SMT sort)
)

type Val struct {
	K     Kind
	T     types.Type
	S     string
	Sl    [4]string // arr off len cap
	F     []Val
	L     *Loc
	If    [2]string // tag pay
	C     *big.Int
	Clo   *Closure
	Why   string // for KBad
	GSort string // KGhost
	Lit   []Val  // KSlice used only as the variadic operand of append: explicit elements, no heap backing
	Own   bool   // KSlice: backing array freshly allocated here and referenced by this value only
	From  *Cell  // value was loaded from this local cell (provenance for move semantics)
}

type Closure struct {
	Fn       interface{} // *ssa.Function
	Bindings []Val
}

type locKind int

const (
	locCell locKind = iota // non-escaping local variable
	locObj                 // heap object (struct, or boxed non-struct) identified by Ref
	locArr                 // whole heap array identified by array id Ref (pointer to [N]T)
	locElem                // element Idx of heap array Ref
)

type pathElem struct {
	Field int    // struct field index, or -1
	Idx   string // array index term (BV64) when Field == -1
}

type Loc struct {
	Kind locKind
	Cell *Cell
	Ref  string
	Idx  string
	Base types.Type // type of the root object (cell type, object type, element type)
	Path []pathElem
}

type Cell struct {
	Name string
	T    types.Type
	id   int
}

func (l *Loc) extend(p pathElem) *Loc {
	n := *l
	n.Path = append(append([]pathElem{}, l.Path...), p)
	return &n
}

// typeAt returns the type of the location's pointee.
func (l *Loc) typeAt() types.Type {
	t := l.Base
	for _, p := range l.Path {
		switch u := t.Underlying().(type) {
		case *types.Struct:
			t = u.Field(p.Field).Type()
		case *types.Array:
			t = u.Elem()
		default:
			return nil
		}
	}
	return t
}

type leaf struct {
	path string
	sort string
	T    types.Type
	bad  bool
}

func intWidth(b *types.Basic) (w int, signed bool, ok bool) {
	switch b.Kind() {
	case types.Int8:
		return 8, true, true
	case types.Int16:
		return 16, true, true
	case types.Int32:
		return 32, true, true
	case types.Int64, types.Int, types.UntypedInt, types.UntypedRune:
		return 64, true, true
	case types.Uint8:
		return 8, false, true
	case types.Uint16:
		return 16, false, true
	case types.Uint32:
		return 32, false, true
	case types.Uint64, types.Uint, types.Uintptr:
		return 64, false, true
	}
	return 0, false, false
}

func isIntType(t types.Type) (int, bool, bool) {
	if t == nil {
		return 0, false, false
	}
	if b, ok := t.Underlying().(*types.Basic); ok {
		return intWidth(b)
	}
	return 0, false, false
}

var leafCache = map[types.Type][]leaf{}

func leavesOf(t types.Type) []leaf {
	if ls, ok := leafCache[t]; ok {
		return ls
	}
	ls := leavesOf1(t)
	leafCache[t] = ls
	return ls
}

func leavesOf1(t types.Type) []leaf {
	switch u := t.Underlying().(type) {
	case *types.Basic:
		if w, _, ok := intWidth(u); ok {
			return []leaf{{"", bvSort(w), t, false}}
		}
		switch {
		case u.Info()&types.IsBoolean != 0:
			return []leaf{{"", sortBool, t, false}}
		case u.Info()&types.IsString != 0:
			return []leaf{{"", sortStr, t, false}}
		case u.Info()&types.IsFloat != 0:
			return []leaf{{"", sortF64, t, false}}
		case u.Kind() == types.UnsafePointer:
			return []leaf{{"", sortRef, t, false}}
		case u.Kind() == types.UntypedNil:
			return []leaf{{"", sortRef, t, false}}
		}
		return []leaf{{"", sortRef, t, true}}
	case *types.Pointer, *types.Map, *types.Chan, *types.Signature:
		return []leaf{{"", sortRef, t, false}}
	case *types.Slice:
		return []leaf{{".arr", sortRef, t, false}, {".off", sortIdx, t, false}, {".len", sortIdx, t, false}, {".cap", sortIdx, t, false}}
	case *types.Interface:
		return []leaf{{".tag", sortRef, t, false}, {".pay", sortRef, t, false}}
	case *types.Struct:
		var out []leaf
		for i := 0; i < u.NumFields(); i++ {
			f := u.Field(i)
			for _, l := range leavesOf(f.Type()) {
				out = append(out, leaf{"." + f.Name() + l.path, l.sort, l.T, l.bad})
			}
		}
		if len(out) == 0 {
			// empty struct: no leaves
		}
		return out
	case *types.Array:
		el := leavesOf(u.Elem())
		if len(el) == 1 && !el[0].bad {
			return []leaf{{"", arraySort(sortIdx, el[0].sort), t, false}}
		}
		return []leaf{{"", sortRef, t, true}}
	case *types.Tuple:
		var out []leaf
		for i := 0; i < u.Len(); i++ {
			for _, l := range leavesOf(u.At(i).Type()) {
				out = append(out, leaf{fmt.Sprintf(".%d%s", i, l.path), l.sort, l.T, l.bad})
			}
		}
		return out
	case *types.TypeParam:
		return []leaf{{"", sortRef, t, true}}
	}
	return []leaf{{"", sortRef, t, true}}
}

func bad(t types.Type, why string) Val { return Val{K: KBad, T: t, Why: why} }

// unflatten builds a Val of type t from leaf terms.
func unflatten(t types.Type, terms []string) Val {
	v, rest := unflatten1(t, terms)
	if len(rest) != 0 {
		panic("unflatten: leftover terms for " + t.String())
	}
	return v
}

func unflatten1(t types.Type, terms []string) (Val, []string) {
	switch u := t.Underlying().(type) {
	case *types.Basic:
		return Val{K: KScalar, T: t, S: terms[0]}, terms[1:]
	case *types.Pointer:
		return ptrFromRef(t, terms[0]), terms[1:]
	case *types.Map, *types.Chan, *types.Signature:
		return Val{K: KRef, T: t, S: terms[0]}, terms[1:]
	case *types.Slice:
		return Val{K: KSlice, T: t, Sl: [4]string{terms[0], terms[1], terms[2], terms[3]}}, terms[4:]
	case *types.Interface:
		return Val{K: KIface, T: t, If: [2]string{terms[0], terms[1]}}, terms[2:]
	case *types.Struct:
		v := Val{K: KStruct, T: t}
		for i := 0; i < u.NumFields(); i++ {
			var f Val
			f, terms = unflatten1(u.Field(i).Type(), terms)
			v.F = append(v.F, f)
		}
		return v, terms
	case *types.Array:
		ls := leavesOf(t)
		if ls[0].bad {
			return bad(t, "array of composite elements"), terms[1:]
		}
		return Val{K: KArray, T: t, S: terms[0]}, terms[1:]
	case *types.Tuple:
		v := Val{K: KTuple, T: t}
		for i := 0; i < u.Len(); i++ {
			var f Val
			f, terms = unflatten1(u.At(i).Type(), terms)
			v.F = append(v.F, f)
		}
		return v, terms
	}
	return bad(t, "unsupported type "+t.String()), terms[1:]
}

// ptrFromRef builds a pointer value from a Ref term (object id / array id).
func ptrFromRef(t types.Type, ref string) Val {
	pt := t.Underlying().(*types.Pointer)
	el := pt.Elem()
	if _, ok := el.Underlying().(*types.Array); ok {
		return Val{K: KPtr, T: t, L: &Loc{Kind: locArr, Ref: ref, Base: el}}
	}
	return Val{K: KPtr, T: t, L: &Loc{Kind: locObj, Ref: ref, Base: el}}
}

// flatten returns the leaf terms of v, or ok=false if v is not representable.
func flatten(v Val) ([]string, bool) {
	switch v.K {
	case KScalar, KArray, KRef, KGhost:
		return []string{v.S}, true
	case KSlice:
		return v.Sl[:], true
	case KIface:
		return v.If[:], true
	case KPtr:
		if v.L == nil {
			return []string{"0"}, true
		}
		if (v.L.Kind == locObj || v.L.Kind == locArr) && len(v.L.Path) == 0 {
			return []string{v.L.Ref}, true
		}
		return nil, false
	case KStruct, KTuple:
		var out []string
		for _, f := range v.F {
			x, ok := flatten(f)
			if !ok {
				return nil, false
			}
			out = append(out, x...)
		}
		return out, true
	}
	return nil, false
}

var byteRe = regexp.MustCompile(`\bbyte\b`)
var runeRe = regexp.MustCompile(`\brune\b`)
var typeKeyCache = map[types.Type]string{}

// typeKey is the canonical name of a type (byte and uint8, rune and int32 are identical types).
func typeKey(t types.Type) string {
	if k, ok := typeKeyCache[t]; ok {
		return k
	}
	k := runeRe.ReplaceAllString(byteRe.ReplaceAllString(types.TypeString(t, nil), "uint8"), "int32")
	typeKeyCache[t] = k
	return k
}

// heap variable names
func fieldHeap(base types.Type, path string) string { return "F:" + typeKey(base) + path }
func elemHeap(elem types.Type, path string) string  { return "E:" + typeKey(elem) + path }

func (v Val) String() string {
	switch v.K {
	case KScalar, KArray, KRef:
		return v.S
	case KSlice:
		return "slice{" + strings.Join(v.Sl[:], ",") + "}"
	case KIface:
		return "iface{" + v.If[0] + "," + v.If[1] + "}"
	case KPtr:
		if v.L == nil {
			return "ptr(nil)"
		}
		return fmt.Sprintf("ptr{%d %s %s %v}", v.L.Kind, v.L.Ref, v.L.Idx, v.L.Path)
	case KStruct, KTuple:
		var xs []string
		for _, f := range v.F {
			xs = append(xs, f.String())
		}
		return "{" + strings.Join(xs, "; ") + "}"
	case KConst:
		return v.C.String()
	case KBad:
		return "BAD(" + v.Why + ")"
	}
	return "?"
}
