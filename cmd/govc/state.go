package main

import (
	"fmt"

	"go/token"
	"go/types"
	"golang.org/x/tools/go/ssa"
	"math/big"
	"sort"
	"strings"
)

// State is the symbolic state at a program point.
type State struct {
	pc    string
	cells map[*Cell]Val
	heap  map[string]string
	epoch string // suffix of lazily created heap constants
	next  string // allocation watermark (Int)
	ghost map[string]Val
	locks map[string]int // lockset: mutex expression -> mode (1 read, 2 write)
}

func (s *State) clone() *State {
	n := &State{pc: s.pc, epoch: s.epoch, next: s.next}
	n.cells = make(map[*Cell]Val, len(s.cells))
	for k, v := range s.cells {
		n.cells[k] = v
	}
	n.heap = make(map[string]string, len(s.heap))
	for k, v := range s.heap {
		n.heap[k] = v
	}
	n.ghost = make(map[string]Val, len(s.ghost))
	for k, v := range s.ghost {
		n.ghost[k] = v
	}
	n.locks = make(map[string]int, len(s.locks))
	for k, v := range s.locks {
		n.locks[k] = v
	}
	return n
}

type Obligation struct {
	Name   string
	Kind   string // nopanic, requires, ensures, invariant, assert, cover
	Desc   string
	Pos    token.Position
	PC     string
	Goal   string
	Mark   int // script prefix length
	Func   string
	Cover  bool // expect sat (vacuity check)
	Result string
	Solver string
	Time   float64
	Model  string
	Vars   map[string]string // names of model-relevant symbols (param leaf -> smt symbol)
}

// VC is one verification unit (a function under contract, or a lemma).
type VC struct {
	eng          *Engine
	lockTypes    map[string]string // lock id (access path) -> "pkgpath.Type.field" of the mutex, for lockorder checks
	sc           *Script
	obls         []*Obligation
	root         string
	next0        string          // allocation watermark at entry of the function under verification
	notes        map[string]bool // abstractions / imprecisions used
	heapSorts    map[string]string
	strLits      map[string]string
	strOrder     []string
	cellN        int
	typeTags     map[string]int
	tagTypes     map[string]types.Type
	nameCount    map[string]int
	inputs       map[string]string
	unsup        []string
	topRets      []retRec
	safetyOff    bool
	callsHavoc   bool
	requiresOff  bool // callee preconditions are assumed (not obliged); callee postconditions ARE used
	firedAnchors map[*Clause]bool
	tablesDone   map[string]bool
	topFn        *ssa.Function
	topCon       *Contract
}

func (vc *VC) note(format string, a ...interface{}) {
	vc.notes[fmt.Sprintf(format, a...)] = true
}

func (vc *VC) unsupported(format string, a ...interface{}) {
	m := fmt.Sprintf(format, a...)
	for _, x := range vc.unsup {
		if x == m {
			return
		}
	}
	vc.unsup = append(vc.unsup, m)
}

func (vc *VC) heapGet(st *State, name, sort string) string {
	if t, ok := st.heap[name]; ok {
		return t
	}
	if old, ok := vc.heapSorts[name]; ok && old != sort {
		panic("heap sort mismatch for " + name + ": " + old + " vs " + sort)
	}
	vc.heapSorts[name] = sort
	c := quote(name + "@" + st.epoch)
	vc.sc.declare(c, sort)
	return c
}

func (vc *VC) heapSet(st *State, name, sort, term string) {
	vc.heapSorts[name] = sort
	st.heap[name] = term
}

// havocAllHeap forgets everything about the heap (unknown call).
func (vc *VC) havocAllHeap(st *State) {
	vc.sc.counter++
	st.epoch = fmt.Sprintf("h%d", vc.sc.counter)
	st.heap = map[string]string{}
	nn := vc.sc.fresh("next", sortRef)
	vc.sc.assert(sx(">=", nn, st.next))
	st.next = nn
}

func (vc *VC) havocHeapVar(st *State, name string) {
	sort, ok := vc.heapSorts[name]
	if !ok {
		return
	}
	st.heap[name] = vc.sc.fresh("hv", sort)
}

func (vc *VC) assume(st *State, cond string) {
	if cond == "true" {
		return
	}
	st.pc = vc.sc.define("pc", sortBool, and(st.pc, cond))
}

func (vc *VC) oblige(st *State, kind, name, desc string, pos token.Position, goal string) {
	if goal == "true" {
		// trivially true obligations are still counted (they are discharged by construction)
	}
	if !strings.HasPrefix(name, vc.root) {
		name = vc.root + "#" + name
	}
	vc.nameCount[name]++
	if n := vc.nameCount[name]; n > 1 {
		name = fmt.Sprintf("%s#%d", name, n)
	}
	if (vc.safetyOff && kind == "nopanic") || ((vc.callsHavoc || vc.requiresOff) && kind == "requires") {
		// functions under a `safety_off` contract are checked for their contract clauses only
		if kind == "nopanic" && goal != "false" {
			vc.assume(st, goal)
		}
		return
	}
	vc.obls = append(vc.obls, &Obligation{Name: name, Kind: kind, Desc: desc, Pos: pos, PC: st.pc, Goal: goal, Mark: vc.sc.mark(), Func: vc.root})
	if kind == "nopanic" && goal != "false" {
		// execution continues only if the operation did not panic
		vc.assume(st, goal)
	}
}

// mergeStates joins edge states.  conds[i] is the full path condition of edge i.
func (vc *VC) mergeStates(sts []*State) *State {
	if len(sts) == 1 {
		return sts[0].clone()
	}
	out := &State{cells: map[*Cell]Val{}, heap: map[string]string{}, ghost: map[string]Val{}, locks: map[string]int{}}
	var pcs []string
	for _, s := range sts {
		pcs = append(pcs, s.pc)
	}
	out.pc = vc.sc.define("pc", sortBool, or(pcs...))
	// cells: those present in all (deterministic order: names of fresh symbols depend on it)
	var cellList []*Cell
	for c := range sts[0].cells {
		cellList = append(cellList, c)
	}
	sort.Slice(cellList, func(i, j int) bool { return cellList[i].id < cellList[j].id })
	for _, c := range cellList {
		v0 := sts[0].cells[c]
		vals := []Val{v0}
		ok := true
		for _, s := range sts[1:] {
			v, has := s.cells[c]
			if !has {
				ok = false
				break
			}
			vals = append(vals, v)
		}
		if !ok {
			continue
		}
		out.cells[c] = vc.mergeVals(pcs, vals, c.Name)
	}
	var ghostList []string
	for g := range sts[0].ghost {
		ghostList = append(ghostList, g)
	}
	sort.Strings(ghostList)
	for _, g := range ghostList {
		v0 := sts[0].ghost[g]
		vals := []Val{v0}
		ok := true
		for _, s := range sts[1:] {
			v, has := s.ghost[g]
			if !has {
				ok = false
				break
			}
			vals = append(vals, v)
		}
		if ok {
			out.ghost[g] = vc.mergeVals(pcs, vals, g)
		}
	}
	// locks: held on all incoming paths -> weakest mode; held on some paths only -> mode 3
	// ("held on some paths": not usable as a guard, but reported by the lock-balance check)
	allLocks := map[string]bool{}
	for _, s := range sts {
		for l := range s.locks {
			allLocks[l] = true
		}
	}
	for l := range allLocks {
		if strings.HasPrefix(l, "#n:") {
			// acquisition counters: equal on all paths, or unknown (-1)
			v, same := sts[0].locks[l], true
			for _, s := range sts {
				if s.locks[l] != v {
					same = false
				}
			}
			if !same {
				v = -1
			}
			out.locks[l] = v
			continue
		}
		m := 2
		every := true
		for _, s := range sts {
			m2, has := s.locks[l]
			if !has {
				every = false
				continue
			}
			if m2 < m || m2 == 3 {
				m = m2
			}
		}
		if every {
			out.locks[l] = m
		} else {
			out.locks[l] = 3
		}
	}
	// heap
	sameEpoch := true
	for _, s := range sts[1:] {
		if s.epoch != sts[0].epoch {
			sameEpoch = false
		}
	}
	names := map[string]bool{}
	if sameEpoch {
		out.epoch = sts[0].epoch
		for _, s := range sts {
			for n := range s.heap {
				names[n] = true
			}
		}
	} else {
		vc.sc.counter++
		out.epoch = fmt.Sprintf("m%d", vc.sc.counter)
		for n := range vc.heapSorts {
			names[n] = true
		}
	}
	var ns []string
	for n := range names {
		ns = append(ns, n)
	}
	sort.Strings(ns)
	for _, n := range ns {
		srt := vc.heapSorts[n]
		var ts []string
		for _, s := range sts {
			ts = append(ts, vc.heapGet(s, n, srt))
		}
		out.heap[n] = vc.mergeTerms(pcs, ts, srt, "h")
	}
	var nx []string
	for _, s := range sts {
		nx = append(nx, s.next)
	}
	out.next = vc.mergeTerms(pcs, nx, sortRef, "next")
	return out
}

func (vc *VC) mergeTerms(pcs, ts []string, sort, prefix string) string {
	same := true
	for _, t := range ts[1:] {
		if t != ts[0] {
			same = false
		}
	}
	if same {
		return ts[0]
	}
	t := ts[len(ts)-1]
	for i := len(ts) - 2; i >= 0; i-- {
		t = ite(pcs[i], ts[i], t)
	}
	return vc.sc.define(prefix, sort, t)
}

func (vc *VC) mergeVals(pcs []string, vals []Val, name string) Val {
	// fast path: identical
	same := true
	for _, v := range vals[1:] {
		if !sameVal(v, vals[0]) {
			same = false
		}
	}
	if same {
		return vals[0]
	}
	t := vals[0].T
	if vals[0].K == KGhost {
		var ts []string
		for _, v := range vals {
			ts = append(ts, v.S)
		}
		return Val{K: KGhost, GSort: vals[0].GSort, S: vc.mergeTerms(pcs, ts, vals[0].GSort, "g."+name)}
	}
	var flats [][]string
	for _, v := range vals {
		f, ok := flatten(v)
		if !ok {
			// pointers to cells etc: keep if identical, else poison
			return bad(t, "merge of non-representable values ("+name+")")
		}
		flats = append(flats, f)
	}
	n := len(flats[0])
	for _, f := range flats {
		if len(f) != n {
			return bad(t, "merge of values of different shapes ("+name+")")
		}
	}
	if t == nil {
		return bad(t, "merge of untyped values")
	}
	ls := leavesOf(t)
	if len(ls) != n {
		return bad(t, "merge: leaf mismatch")
	}
	out := make([]string, n)
	for i := 0; i < n; i++ {
		var ts []string
		for _, f := range flats {
			ts = append(ts, f[i])
		}
		out[i] = vc.mergeTerms(pcs, ts, ls[i].sort, "m."+name)
	}
	res := unflatten(t, out)
	if res.K == KSlice {
		// exclusively owned on every incoming path => exclusively owned after the join
		own := true
		for _, v := range vals {
			if v.K != KSlice || !v.Own {
				own = false
			}
		}
		res.Own = own
	}
	return res
}

func sameVal(a, b Val) bool {
	if a.K != b.K {
		return false
	}
	switch a.K {
	case KScalar, KArray, KRef, KGhost:
		return a.S == b.S
	case KSlice:
		return a.Sl == b.Sl
	case KIface:
		return a.If == b.If
	case KPtr:
		if a.L == nil || b.L == nil {
			return a.L == b.L
		}
		if a.L.Kind != b.L.Kind || a.L.Cell != b.L.Cell || a.L.Ref != b.L.Ref || a.L.Idx != b.L.Idx || len(a.L.Path) != len(b.L.Path) {
			return false
		}
		for i := range a.L.Path {
			if a.L.Path[i] != b.L.Path[i] {
				return false
			}
		}
		return true
	case KStruct, KTuple:
		if len(a.F) != len(b.F) {
			return false
		}
		for i := range a.F {
			if !sameVal(a.F[i], b.F[i]) {
				return false
			}
		}
		return true
	case KConst:
		return a.C.Cmp(b.C) == 0
	case KBad:
		return true
	}
	return false
}

// zero returns the zero value of type t.
func (vc *VC) zero(t types.Type) Val {
	switch u := t.Underlying().(type) {
	case *types.Basic:
		if w, _, ok := intWidth(u); ok {
			return Val{K: KScalar, T: t, S: bvInt(0, w)}
		}
		switch {
		case u.Info()&types.IsBoolean != 0:
			return Val{K: KScalar, T: t, S: "false"}
		case u.Info()&types.IsString != 0:
			return Val{K: KScalar, T: t, S: vc.strLit("")}
		case u.Info()&types.IsFloat != 0:
			vc.sc.declare("flt.zero", sortF64)
			return Val{K: KScalar, T: t, S: "flt.zero"}
		}
		return Val{K: KScalar, T: t, S: "0"}
	case *types.Pointer:
		return ptrFromRef(t, "0")
	case *types.Map, *types.Chan, *types.Signature:
		return Val{K: KRef, T: t, S: "0"}
	case *types.Slice:
		z := bvInt(0, 64)
		// a nil slice has no backing array: trivially exclusively owned (append allocates)
		return Val{K: KSlice, T: t, Sl: [4]string{"0", z, z, z}, Own: true}
	case *types.Interface:
		return Val{K: KIface, T: t, If: [2]string{"0", "0"}}
	case *types.Struct:
		v := Val{K: KStruct, T: t}
		for i := 0; i < u.NumFields(); i++ {
			v.F = append(v.F, vc.zero(u.Field(i).Type()))
		}
		return v
	case *types.Array:
		ls := leavesOf(t)
		if ls[0].bad {
			return bad(t, "array of composite elements")
		}
		ez, _ := flatten(vc.zero(u.Elem()))
		return Val{K: KArray, T: t, S: vc.sc.constArray(ls[0].sort, ez[0])}
	case *types.Tuple:
		v := Val{K: KTuple, T: t}
		for i := 0; i < u.Len(); i++ {
			v.F = append(v.F, vc.zero(u.At(i).Type()))
		}
		return v
	}
	return bad(t, "zero of "+t.String())
}

// symbolic returns a fresh unconstrained value of type t; wf assumptions are
// returned as a condition.
func (vc *VC) symbolic(t types.Type, prefix string) (Val, bool) {
	ls := leavesOf(t)
	terms := make([]string, len(ls))
	okAll := true
	for i, l := range ls {
		if l.bad {
			okAll = false
		}
		terms[i] = vc.sc.fresh(prefix+l.path, l.sort)
	}
	return unflatten(t, terms), okAll
}

// wf returns the well-formedness facts the Go runtime guarantees for a value
// read from memory or received as a parameter.
func (vc *VC) wf(st *State, v Val) string {
	switch v.K {
	case KSlice:
		z := bvInt(0, 64)
		lim := bvConst(new(big.Int).Lsh(big.NewInt(1), 40), 64)
		return and(
			sx("bvsle", z, v.Sl[2]), sx("bvsle", v.Sl[2], v.Sl[3]), sx("bvsle", v.Sl[3], lim),
			sx("bvsle", z, v.Sl[1]), sx("bvsle", v.Sl[1], lim),
			sx("<=", "0", v.Sl[0]), sx("<", v.Sl[0], st.next),
			implies(eq(v.Sl[0], "0"), and(eq(v.Sl[3], z), eq(v.Sl[1], z))),
		)
	case KPtr:
		if v.L != nil && (v.L.Kind == locObj || v.L.Kind == locArr) && len(v.L.Path) == 0 && v.L.Ref != "0" {
			return and(sx("<=", "0", v.L.Ref), sx("<", v.L.Ref, st.next))
		}
	case KRef:
		if v.S != "0" {
			return and(sx("<=", "0", v.S), sx("<", v.S, st.next))
		}
	case KIface:
		// trusted: values received from outside the analysed code never hold a typed nil
		// pointer inside a non-nil interface
		return and(sx("<=", "0", v.If[0]), sx("<", v.If[1], st.next), eq(eq(v.If[0], "0"), eq(v.If[1], "0")))
	case KStruct, KTuple:
		var cs []string
		for _, f := range v.F {
			cs = append(cs, vc.wf(st, f))
		}
		return and(cs...)
	case KScalar:
		if b, ok := v.T.Underlying().(*types.Basic); ok && b.Info()&types.IsString != 0 {
			vc.declStr()
			return and(sx("bvsle", bvInt(0, 64), sx("s.len", v.S)), sx("bvsle", sx("s.len", v.S), bvConst(new(big.Int).Lsh(big.NewInt(1), 40), 64)))
		}
	}
	return "true"
}

func (vc *VC) declStr() {
	vc.sc.declareFun("s.len", []string{sortStr}, sortIdx)
	vc.sc.declareFun("s.at", []string{sortStr, sortIdx}, bvSort(8))
}

// strLit interns a string literal.
func (vc *VC) strLit(s string) string {
	if n, ok := vc.strLits[s]; ok {
		return n
	}
	vc.declStr()
	name := quote(fmt.Sprintf("lit!%d!%s", len(vc.strLits), sanitize(s)))
	vc.sc.declare(name, sortStr)
	vc.sc.assert(eq(sx("s.len", name), bvInt(int64(len(s)), 64)))
	if len(s) <= 48 {
		for i := 0; i < len(s); i++ {
			vc.sc.assert(eq(sx("s.at", name, bvInt(int64(i), 64)), bvInt(int64(s[i]), 8)))
		}
	}
	for _, o := range vc.strOrder {
		vc.sc.assert(not(eq(name, vc.strLits[o])))
	}
	vc.strLits[s] = name
	vc.strOrder = append(vc.strOrder, s)
	return name
}

func sanitize(s string) string {
	var b strings.Builder
	for _, c := range s {
		if c >= 'a' && c <= 'z' || c >= 'A' && c <= 'Z' || c >= '0' && c <= '9' || c == '_' {
			b.WriteRune(c)
		} else {
			b.WriteByte('_')
		}
		if b.Len() > 24 {
			break
		}
	}
	return b.String()
}

// typeTag returns the Int constant identifying a dynamic type in interfaces.
func (vc *VC) typeTag(t types.Type) string {
	k := typeKey(t)
	if n, ok := vc.typeTags[k]; ok {
		return fmt.Sprint(n)
	}
	n := len(vc.typeTags) + 1
	vc.typeTags[k] = n
	if vc.tagTypes == nil {
		vc.tagTypes = map[string]types.Type{}
	}
	vc.tagTypes[fmt.Sprint(n)] = t
	return fmt.Sprint(n)
}

// alloc returns a fresh reference.
func (vc *VC) alloc(st *State, prefix string) string {
	r := vc.sc.fresh(prefix, sortRef)
	vc.sc.assert(and(sx(">=", r, st.next), sx(">", r, "0")))
	st.next = vc.sc.define("next", sortRef, sx("+", r, "1"))
	return r
}
