package main

// Contract language: parser for //@ clauses and spec expressions.

import (
	"fmt"
	"os"
	"path/filepath"
	"strconv"
	"strings"
	"unicode"
)

type SExpr struct {
	Op   string // id int str bool nil un bin call index slice field forall exists
	Name string // identifier / operator / field name / callee
	Args []*SExpr
	Vars []SVar
	Trig []*SExpr
	Pos  string
	Recv *SExpr // receiver expression for calls of the form x.f(...)
}

type SVar struct {
	Name string
	Type string
}

func (e *SExpr) String() string {
	switch e.Op {
	case "id", "int", "bool", "nil":
		return e.Name
	case "str":
		return strconv.Quote(e.Name)
	case "un":
		return e.Name + e.Args[0].String()
	case "bin":
		return "(" + e.Args[0].String() + " " + e.Name + " " + e.Args[1].String() + ")"
	case "call":
		var xs []string
		for _, a := range e.Args {
			xs = append(xs, a.String())
		}
		return e.Name + "(" + strings.Join(xs, ", ") + ")"
	case "index":
		return e.Args[0].String() + "[" + e.Args[1].String() + "]"
	case "slice":
		s := e.Args[0].String() + "["
		if e.Args[1] != nil {
			s += e.Args[1].String()
		}
		s += ":"
		if e.Args[2] != nil {
			s += e.Args[2].String()
		}
		return s + "]"
	case "field":
		return e.Args[0].String() + "." + e.Name
	case "forall", "exists":
		var vs []string
		for _, v := range e.Vars {
			vs = append(vs, v.Name+" "+v.Type)
		}
		return "(" + e.Op + " " + strings.Join(vs, ", ") + " :: " + e.Args[0].String() + ")"
	}
	return "?"
}

type token_ struct {
	kind string // id int str op eof
	text string
}

func lexSpec(s string) ([]token_, error) {
	var out []token_
	i := 0
	for i < len(s) {
		c := s[i]
		switch {
		case c == ' ' || c == '\t' || c == '\n':
			i++
		case unicode.IsLetter(rune(c)) || c == '_':
			j := i
			for j < len(s) && (unicode.IsLetter(rune(s[j])) || unicode.IsDigit(rune(s[j])) || s[j] == '_' || s[j] == '#' || s[j] == '$') {
				j++
			}
			out = append(out, token_{"id", s[i:j]})
			i = j
		case c >= '0' && c <= '9':
			j := i
			for j < len(s) && (unicode.IsDigit(rune(s[j])) || unicode.IsLetter(rune(s[j])) || s[j] == '_') {
				j++
			}
			out = append(out, token_{"int", strings.ReplaceAll(s[i:j], "_", "")})
			i = j
		case c == '"':
			j := i + 1
			for j < len(s) && s[j] != '"' {
				if s[j] == '\\' {
					j++
				}
				j++
			}
			if j >= len(s) {
				return nil, fmt.Errorf("unterminated string in %q", s)
			}
			u, err := strconv.Unquote(s[i : j+1])
			if err != nil {
				return nil, err
			}
			out = append(out, token_{"str", u})
			i = j + 1
		case c == '\'':
			j := strings.IndexByte(s[i+1:], '\'')
			if j < 0 {
				return nil, fmt.Errorf("bad char literal")
			}
			u, _, _, err := strconv.UnquoteChar(s[i+1:i+1+j], '\'')
			if err != nil {
				return nil, err
			}
			out = append(out, token_{"int", strconv.Itoa(int(u))})
			i += j + 2
		default:
			ops := []string{"<==>", "==>", "::", "&&", "||", "==", "!=", "<=", ">=", "<<", ">>", "&^", "..",
				"+", "-", "*", "/", "%", "&", "|", "^", "<", ">", "!", "(", ")", "[", "]", ",", ":", ".", "{", "}", "?"}
			found := false
			for _, op := range ops {
				if strings.HasPrefix(s[i:], op) {
					out = append(out, token_{"op", op})
					i += len(op)
					found = true
					break
				}
			}
			if !found {
				return nil, fmt.Errorf("unexpected character %q in %q", c, s)
			}
		}
	}
	out = append(out, token_{"eof", ""})
	return out, nil
}

type specParser struct {
	toks []token_
	p    int
	src  string
}

func (p *specParser) peek() token_ { return p.toks[p.p] }
func (p *specParser) next() token_ { t := p.toks[p.p]; p.p++; return t }
func (p *specParser) isOp(op string) bool {
	t := p.peek()
	return t.kind == "op" && t.text == op
}
func (p *specParser) expect(op string) error {
	if !p.isOp(op) {
		return fmt.Errorf("expected %q at token %d (%q) in %q", op, p.p, p.peek().text, p.src)
	}
	p.p++
	return nil
}

var binPrec = map[string]int{
	"<==>": 1, "==>": 2, "||": 3, "&&": 4,
	"==": 5, "!=": 5, "<": 5, "<=": 5, ">": 5, ">=": 5,
	"+": 6, "-": 6, "|": 6, "^": 6,
	"*": 7, "/": 7, "%": 7, "<<": 7, ">>": 7, "&": 7, "&^": 7,
}

func parseSpecExpr(s string) (*SExpr, error) {
	toks, err := lexSpec(s)
	if err != nil {
		return nil, err
	}
	p := &specParser{toks: toks, src: s}
	e, err := p.expr(0)
	if err != nil {
		return nil, err
	}
	if p.peek().kind != "eof" {
		return nil, fmt.Errorf("trailing tokens at %q in %q", p.peek().text, s)
	}
	return e, nil
}

func (p *specParser) expr(minPrec int) (*SExpr, error) {
	lhs, err := p.unary()
	if err != nil {
		return nil, err
	}
	for {
		t := p.peek()
		if t.kind != "op" {
			return lhs, nil
		}
		prec, ok := binPrec[t.text]
		if !ok || prec < minPrec {
			return lhs, nil
		}
		p.next()
		var rhs *SExpr
		if t.text == "==>" || t.text == "<==>" {
			rhs, err = p.expr(prec) // right assoc
		} else {
			rhs, err = p.expr(prec + 1)
		}
		if err != nil {
			return nil, err
		}
		lhs = &SExpr{Op: "bin", Name: t.text, Args: []*SExpr{lhs, rhs}}
	}
}

func (p *specParser) unary() (*SExpr, error) {
	t := p.peek()
	if t.kind == "op" && (t.text == "!" || t.text == "-" || t.text == "^" || t.text == "*") {
		p.next()
		x, err := p.unary()
		if err != nil {
			return nil, err
		}
		return &SExpr{Op: "un", Name: t.text, Args: []*SExpr{x}}, nil
	}
	return p.postfix()
}

func (p *specParser) typeText() (string, error) {
	// type: sequence of tokens until "," "::" or ")" at depth 0
	var b strings.Builder
	for {
		t := p.peek()
		if t.kind == "eof" {
			break
		}
		if t.kind == "op" && (t.text == "," || t.text == "::" || t.text == ")" || t.text == "==") {
			break
		}
		b.WriteString(t.text)
		p.next()
	}
	if b.Len() == 0 {
		return "", fmt.Errorf("missing type in %q", p.src)
	}
	return b.String(), nil
}

func (p *specParser) postfix() (*SExpr, error) {
	t := p.next()
	var e *SExpr
	switch t.kind {
	case "int":
		e = &SExpr{Op: "int", Name: t.text}
	case "str":
		e = &SExpr{Op: "str", Name: t.text}
	case "id":
		switch t.text {
		case "true", "false":
			e = &SExpr{Op: "bool", Name: t.text}
		case "nil":
			e = &SExpr{Op: "nil", Name: "nil"}
		case "forall", "exists":
			q := &SExpr{Op: t.text}
			for {
				n := p.next()
				if n.kind != "id" {
					return nil, fmt.Errorf("quantifier: expected variable name in %q", p.src)
				}
				ty, err := p.typeText()
				if err != nil {
					return nil, err
				}
				q.Vars = append(q.Vars, SVar{n.text, ty})
				if p.isOp(",") {
					p.next()
					continue
				}
				break
			}
			if err := p.expect("::"); err != nil {
				return nil, err
			}
			for p.isOp("{") {
				p.next()
				tr, err := p.expr(0)
				if err != nil {
					return nil, err
				}
				q.Trig = append(q.Trig, tr)
				if err := p.expect("}"); err != nil {
					return nil, err
				}
			}
			body, err := p.expr(0)
			if err != nil {
				return nil, err
			}
			q.Args = []*SExpr{body}
			return q, nil
		default:
			e = &SExpr{Op: "id", Name: t.text}
		}
	case "op":
		switch t.text {
		case "(":
			x, err := p.expr(0)
			if err != nil {
				return nil, err
			}
			if err := p.expect(")"); err != nil {
				return nil, err
			}
			e = x
		case "[":
			// []T(x) conversion
			if err := p.expect("]"); err != nil {
				return nil, err
			}
			n := p.next()
			e = &SExpr{Op: "id", Name: "[]" + n.text}
		default:
			return nil, fmt.Errorf("unexpected %q in %q", t.text, p.src)
		}
	default:
		return nil, fmt.Errorf("unexpected end of expression in %q", p.src)
	}
	for {
		switch {
		case p.isOp("."):
			p.next()
			n := p.next()
			if n.kind != "id" && n.kind != "int" {
				return nil, fmt.Errorf("expected field name in %q", p.src)
			}
			e = &SExpr{Op: "field", Name: n.text, Args: []*SExpr{e}}
		case p.isOp("("):
			p.next()
			var args []*SExpr
			for !p.isOp(")") {
				a, err := p.expr(0)
				if err != nil {
					return nil, err
				}
				args = append(args, a)
				if p.isOp(",") {
					p.next()
				} else {
					break
				}
			}
			if err := p.expect(")"); err != nil {
				return nil, err
			}
			name := ""
			var recv *SExpr
			switch e.Op {
			case "id":
				name = e.Name
			case "field":
				name = e.Args[0].String() + "." + e.Name
				recv = e.Args[0]
			default:
				return nil, fmt.Errorf("call of non-identifier in %q", p.src)
			}
			e = &SExpr{Op: "call", Name: name, Args: args, Recv: recv}
		case p.isOp("["):
			p.next()
			var lo, hi *SExpr
			var err error
			if !p.isOp(":") {
				lo, err = p.expr(0)
				if err != nil {
					return nil, err
				}
			}
			if p.isOp("]") {
				p.next()
				e = &SExpr{Op: "index", Args: []*SExpr{e, lo}}
				continue
			}
			if err := p.expect(":"); err != nil {
				return nil, err
			}
			if !p.isOp("]") {
				hi, err = p.expr(0)
				if err != nil {
					return nil, err
				}
			}
			if err := p.expect("]"); err != nil {
				return nil, err
			}
			e = &SExpr{Op: "slice", Args: []*SExpr{e, lo, hi}}
		default:
			return e, nil
		}
	}
}

// ---------- contract files ----------

type Clause struct {
	After bool   // anchor fires after the matched source line has executed (instead of before it)
	Kind  string // requires ensures invariant assert assume
	Match string // for assert/assume: source line substring
	Loop  int
	Expr  *SExpr
	Src   string
	Line  int
	File  string
}

type Contract struct {
	Pkg       string // package path
	Func      string // Recv.Name or Name
	Requires  []*Clause
	Ensures   []*Clause
	Invs      map[int][]*Clause
	Modifies  []string // heap variable patterns, or "*" ; nil => nothing
	HasMod    bool
	Flags     map[string]bool // pure, trusted, inline, lemma, nopanic_off
	Props     []string
	Unroll    map[int]int
	File      string
	Line      int
	Hints     []*Clause
	LoopMod   map[int][]string
	Decreases []*Clause
	Asserts   []*Clause // assert at "text": expr   /  assume at "text": expr
	Ghosts    []*GhostVar
	Holds     map[string]int  // lockset: mutex access path -> mode held at entry (1 read, 2 write)
	Unguarded []string        // lockset: base access paths exempt from guard checks (unpublished objects)
	NoWrite   []string        // access paths (x.f) this function must not assign, insert into or delete from
	Gosync    map[string]bool // gosync x: captured variable x shared with a goroutine is synchronised by other means (stated in the contract)
}

type GhostVar struct {
	Name string
	Type string
	Init *SExpr
	Src  string
}

type SpecFunc struct {
	Pkg    string
	Name   string
	Params []SVar
	Ret    string
	Body   *SExpr // nil => uninterpreted
	Src    string
}

type Axiom struct {
	Pkg  string
	Name string
	Expr *SExpr
	Src  string
}

type ContractSet struct {
	Guards    map[string]string    // "pkgpath.Type.field" -> guarding mutex field of the same struct
	LockOrder [][2]string          // lockorder A.mu B.mu: a goroutine holding B.mu must not acquire A.mu (A before B)
	Funcs     map[string]*Contract // key pkgpath + "." + Func
	Specs     map[string]*SpecFunc // key name (global namespace) and pkgpath.name
	Axioms    []*Axiom
	Files     []string
}

func newContractSet() *ContractSet {
	return &ContractSet{Funcs: map[string]*Contract{}, Specs: map[string]*SpecFunc{}, Guards: map[string]string{}}
}

// loadContractFile parses one file of //@ lines. pkgPath is the import path
// of the package the file belongs to ("" for shared spec files).
func (cs *ContractSet) loadContractFile(path, pkgPath string) error {
	data, err := os.ReadFile(path)
	if err != nil {
		return err
	}
	cs.Files = append(cs.Files, path)
	lines := strings.Split(string(data), "\n")
	// join continuation lines
	type ln struct {
		text string
		no   int
	}
	var clauses []ln
	for i, raw := range lines {
		t := strings.TrimSpace(raw)
		if !strings.HasPrefix(t, "//@") {
			continue
		}
		t = strings.TrimSpace(t[3:])
		if t == "" {
			continue
		}
		if strings.HasPrefix(t, "|") && len(clauses) > 0 {
			clauses[len(clauses)-1].text += " " + strings.TrimSpace(t[1:])
			continue
		}
		clauses = append(clauses, ln{t, i + 1})
	}
	var cur *Contract
	for _, c := range clauses {
		word, rest := splitWord(c.text)
		fail := func(err error) error {
			return fmt.Errorf("%s:%d: %v", filepath.Base(path), c.no, err)
		}
		switch word {
		case "package":
			pkgPath = strings.TrimSpace(rest)
		case "func":
			name := strings.TrimSpace(rest)
			cur = &Contract{Pkg: pkgPath, Func: name, Invs: map[int][]*Clause{}, Flags: map[string]bool{}, Unroll: map[int]int{}, File: path, Line: c.no, LoopMod: map[int][]string{}}
			key := pkgPath + "." + name
			if _, dup := cs.Funcs[key]; dup {
				return fail(fmt.Errorf("duplicate contract for %s", key))
			}
			cs.Funcs[key] = cur
		case "ghost":
			// ghost name type = init-expr   (init evaluated in the entry state)
			if cur == nil {
				return fail(fmt.Errorf("ghost outside func"))
			}
			eqi := strings.Index(rest, "=")
			if eqi < 0 {
				return fail(fmt.Errorf("ghost needs: name type = expr"))
			}
			nt := strings.Fields(rest[:eqi])
			if len(nt) != 2 {
				return fail(fmt.Errorf("ghost needs: name type = expr"))
			}
			e, err := parseSpecExpr(rest[eqi+1:])
			if err != nil {
				return fail(err)
			}
			cur.Ghosts = append(cur.Ghosts, &GhostVar{Name: nt[0], Type: nt[1], Init: e, Src: rest})
		case "ghostset":
			// ghostset at "text": name = expr
			if cur == nil {
				return fail(fmt.Errorf("ghostset outside func"))
			}
			w2, r2 := splitWord(rest)
			if (w2 != "at" && w2 != "after") || !strings.HasPrefix(r2, "\"") {
				return fail(fmt.Errorf("expected: ghostset at|after \"source text\": name = expr"))
			}
			gsAfter := w2 == "after"
			end := strings.Index(r2[1:], "\":")
			if end < 0 {
				return fail(fmt.Errorf("expected: ghostset at \"source text\": name = expr"))
			}
			match := r2[1 : 1+end]
			body := strings.TrimSpace(r2[end+3:])
			eqi := strings.Index(body, "=")
			if eqi < 0 {
				return fail(fmt.Errorf("ghostset needs name = expr"))
			}
			e, err := parseSpecExpr(body[eqi+1:])
			if err != nil {
				return fail(err)
			}
			cur.Asserts = append(cur.Asserts, &Clause{Kind: "ghostset:" + strings.TrimSpace(body[:eqi]), Match: match, Expr: e, Src: body, Line: c.no, File: path, After: gsAfter})
		case "assert", "assume":
			if cur == nil {
				return fail(fmt.Errorf("%s outside func", word))
			}
			// assert at "source text": expr
			w2, r2 := splitWord(rest)
			if (w2 != "at" && w2 != "after") || !strings.HasPrefix(r2, "\"") {
				return fail(fmt.Errorf("expected: %s at|after \"source text\": expr", word))
			}
			end := strings.Index(r2[1:], "\":")
			if end < 0 {
				return fail(fmt.Errorf("expected: %s at \"source text\": expr", word))
			}
			match := r2[1 : 1+end]
			body := strings.TrimSpace(r2[end+3:])
			e, err := parseSpecExpr(body)
			if err != nil {
				return fail(err)
			}
			cur.Asserts = append(cur.Asserts, &Clause{Kind: word, Match: match, Expr: e, Src: body, Line: c.no, File: path, After: w2 == "after"})
		case "requires", "ensures", "hint", "decreases":
			if cur == nil {
				return fail(fmt.Errorf("%s outside func", word))
			}
			e, err := parseSpecExpr(rest)
			if err != nil {
				return fail(err)
			}
			cl := &Clause{Kind: word, Expr: e, Src: rest, Line: c.no, File: path}
			switch word {
			case "requires":
				cur.Requires = append(cur.Requires, cl)
			case "ensures":
				cur.Ensures = append(cur.Ensures, cl)
			case "hint":
				cur.Hints = append(cur.Hints, cl)
			case "decreases":
				cur.Decreases = append(cur.Decreases, cl)
			}
		case "invariant", "unroll", "loopmodifies":
			if cur == nil {
				return fail(fmt.Errorf("%s outside func", word))
			}
			// invariant loop k: expr
			w2, r2 := splitWord(rest)
			if w2 != "loop" {
				return fail(fmt.Errorf("expected 'loop k:' after %s", word))
			}
			idx := strings.IndexByte(r2, ':')
			if idx < 0 {
				return fail(fmt.Errorf("expected ':' after loop number"))
			}
			k, err := strconv.Atoi(strings.TrimSpace(r2[:idx]))
			if err != nil {
				return fail(err)
			}
			body := strings.TrimSpace(r2[idx+1:])
			switch word {
			case "unroll":
				n, err := strconv.Atoi(body)
				if err != nil {
					return fail(err)
				}
				cur.Unroll[k] = n
			case "loopmodifies":
				for _, m := range strings.Split(body, ",") {
					cur.LoopMod[k] = append(cur.LoopMod[k], strings.TrimSpace(m))
				}
			default:
				e, err := parseSpecExpr(body)
				if err != nil {
					return fail(err)
				}
				cur.Invs[k] = append(cur.Invs[k], &Clause{Kind: "invariant", Loop: k, Expr: e, Src: body, Line: c.no, File: path})
			}
		case "modifies":
			if cur == nil {
				return fail(fmt.Errorf("modifies outside func"))
			}
			cur.HasMod = true
			for _, m := range strings.Split(rest, ",") {
				m = strings.TrimSpace(m)
				if m != "" && m != "nothing" {
					cur.Modifies = append(cur.Modifies, m)
				}
			}
		case "lockorder":
			// lockorder TypeA.muA TypeB.muB   (file level): muA is acquired BEFORE muB - a goroutine that holds
			// a TypeB.muB must not acquire a TypeA.muA
			f := strings.Fields(rest)
			if len(f) != 2 || !strings.Contains(f[0], ".") || !strings.Contains(f[1], ".") {
				return fail(fmt.Errorf("lockorder needs: TypeA.muA TypeB.muB"))
			}
			cs.LockOrder = append(cs.LockOrder, [2]string{pkgPath + "." + f[0], pkgPath + "." + f[1]})
			cur = nil
		case "guarded":
			// guarded Type.field[, Type.field2 ...] by mutexField   (file level; Type is of this package)
			bi := strings.LastIndex(rest, " by ")
			if bi < 0 {
				return fail(fmt.Errorf("guarded needs: Type.field by mutexField"))
			}
			mu := strings.TrimSpace(rest[bi+4:])
			for _, tf := range strings.Split(rest[:bi], ",") {
				tf = strings.TrimSpace(tf)
				if tf == "" || !strings.Contains(tf, ".") {
					return fail(fmt.Errorf("guarded needs: Type.field by mutexField"))
				}
				cs.Guards[pkgPath+"."+tf] = mu
			}
			cur = nil
		case "holds":
			// holds path R|W : the caller holds this mutex (lockset contracts)
			if cur == nil {
				return fail(fmt.Errorf("holds outside func"))
			}
			f := strings.Fields(rest)
			if len(f) != 2 || (f[1] != "R" && f[1] != "W") {
				return fail(fmt.Errorf("holds needs: path R|W"))
			}
			if cur.Holds == nil {
				cur.Holds = map[string]int{}
			}
			cur.Holds[f[0]] = map[string]int{"R": 1, "W": 2}[f[1]]
		case "nowrite":
			// nowrite x.f, y.g : the function (and its closures) never stores to these fields and never
			// inserts into / deletes from maps held in them
			if cur == nil {
				return fail(fmt.Errorf("nowrite outside func"))
			}
			for _, u := range strings.Split(rest, ",") {
				if u = strings.TrimSpace(u); u != "" {
					cur.NoWrite = append(cur.NoWrite, u)
				}
			}
		case "gosync":
			if cur == nil {
				return fail(fmt.Errorf("gosync outside func"))
			}
			if cur.Gosync == nil {
				cur.Gosync = map[string]bool{}
			}
			for _, u := range strings.Split(rest, ",") {
				if u = strings.TrimSpace(u); u != "" {
					cur.Gosync[u] = true
				}
			}
		case "unguarded":
			if cur == nil {
				return fail(fmt.Errorf("unguarded outside func"))
			}
			for _, u := range strings.Split(rest, ",") {
				if u = strings.TrimSpace(u); u != "" {
					cur.Unguarded = append(cur.Unguarded, u)
				}
			}
		case "pure", "trusted", "inline", "lemma", "noinline", "opaque", "entry", "safety_off", "lockbalance", "calls_havoc", "lockset", "noloopframe", "interference", "requires_off", "go_summary", "go_inline", "structural":
			if cur == nil {
				return fail(fmt.Errorf("%s outside func", word))
			}
			cur.Flags[word] = true
		case "prop":
			if cur == nil {
				return fail(fmt.Errorf("prop outside func"))
			}
			cur.Props = append(cur.Props, strings.Fields(rest)...)
		case "spec":
			// spec func name(a T, b T) R = expr
			w2, r2 := splitWord(rest)
			if w2 != "func" {
				return fail(fmt.Errorf("expected 'spec func'"))
			}
			sf, err := parseSpecFunc(r2)
			if err != nil {
				return fail(err)
			}
			sf.Pkg = pkgPath
			cs.Specs[sf.Name] = sf
			cur = nil
		case "axiom":
			idx := strings.IndexByte(rest, ':')
			if idx < 0 {
				return fail(fmt.Errorf("axiom needs 'name: expr'"))
			}
			e, err := parseSpecExpr(rest[idx+1:])
			if err != nil {
				return fail(err)
			}
			cs.Axioms = append(cs.Axioms, &Axiom{Pkg: pkgPath, Name: strings.TrimSpace(rest[:idx]), Expr: e, Src: rest[idx+1:]})
			cur = nil
		default:
			return fail(fmt.Errorf("unknown clause %q", word))
		}
	}
	return nil
}

func splitWord(s string) (string, string) {
	s = strings.TrimSpace(s)
	i := strings.IndexAny(s, " \t")
	if i < 0 {
		return s, ""
	}
	return s[:i], strings.TrimSpace(s[i+1:])
}

func parseSpecFunc(s string) (*SpecFunc, error) {
	op := strings.IndexByte(s, '(')
	if op < 0 {
		return nil, fmt.Errorf("spec func: missing '('")
	}
	name := strings.TrimSpace(s[:op])
	depth := 0
	cl := -1
	for i := op; i < len(s); i++ {
		if s[i] == '(' {
			depth++
		} else if s[i] == ')' {
			depth--
			if depth == 0 {
				cl = i
				break
			}
		}
	}
	if cl < 0 {
		return nil, fmt.Errorf("spec func: missing ')'")
	}
	sf := &SpecFunc{Name: name, Src: s}
	ps := strings.TrimSpace(s[op+1 : cl])
	if ps != "" {
		for _, p := range strings.Split(ps, ",") {
			w, t := splitWord(p)
			if t == "" {
				return nil, fmt.Errorf("spec func %s: parameter %q needs a type", name, p)
			}
			sf.Params = append(sf.Params, SVar{w, strings.ReplaceAll(t, " ", "")})
		}
	}
	rest := strings.TrimSpace(s[cl+1:])
	if i := strings.Index(rest, "="); i >= 0 && !strings.HasPrefix(rest[i:], "==") {
		sf.Ret = strings.TrimSpace(rest[:i])
		e, err := parseSpecExpr(rest[i+1:])
		if err != nil {
			return nil, err
		}
		sf.Body = e
	} else {
		sf.Ret = rest
	}
	if sf.Ret == "" {
		return nil, fmt.Errorf("spec func %s: missing result type", name)
	}
	return sf, nil
}
