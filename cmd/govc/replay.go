package main

// Counterexample replay: a solver model of a failed obligation is turned into an
// in-package Go test that calls the real function with the model's arguments and
// (for ensures clauses) evaluates the violated clause concretely. The test is
// injected with `go test -overlay` so nothing is written into /repo.

import (
	"bytes"
	"context"
	"encoding/json"
	"fmt"
	"go/types"
	"math/big"
	"os"
	"os/exec"
	"path/filepath"
	"regexp"
	"sort"
	"strings"
	"time"

	"golang.org/x/tools/go/ssa"
)

const maxReplayElems = 96

type modelVals map[string]string // term -> value (raw smt)

func parseSMTValue(v string) (*big.Int, bool) {
	v = strings.TrimSpace(v)
	switch {
	case strings.HasPrefix(v, "#x"):
		n, ok := new(big.Int).SetString(v[2:], 16)
		return n, ok
	case strings.HasPrefix(v, "#b"):
		n, ok := new(big.Int).SetString(v[2:], 2)
		return n, ok
	case strings.HasPrefix(v, "(_ bv"):
		if x, _, ok := bvLit(v); ok {
			return x, true
		}
	case strings.HasPrefix(v, "(- "):
		n, ok := new(big.Int).SetString(strings.TrimSuffix(strings.TrimSpace(v[3:]), ")"), 10)
		if ok {
			return n.Neg(n), true
		}
	case v == "true":
		return big.NewInt(1), true
	case v == "false":
		return big.NewInt(0), true
	default:
		n, ok := new(big.Int).SetString(v, 10)
		return n, ok
	}
	return nil, false
}

// getValues asks the solver that found the counterexample for the values of terms.
// modelTiers: progressively weaker shape constraints on slice parameters, smallest models first.
func modelTiers(vc *VC, extra [][3]string) [][]string {
	var offs, lens, caps []string
	for _, x := range extra {
		offs = append(offs, x[0])
		lens = append(lens, x[1])
		caps = append(caps, x[2])
	}
	for name, sym := range vc.inputs {
		switch {
		case strings.HasSuffix(name, ".off"):
			offs = append(offs, sym)
		case strings.HasSuffix(name, ".len"):
			lens = append(lens, sym)
			caps = append(caps, vc.inputs[strings.TrimSuffix(name, ".len")+".cap"])
		}
	}
	if len(lens) == 0 {
		return [][]string{nil}
	}
	var tiers [][]string
	for _, bound := range []int64{2, 4, 8, 16, 64} {
		var t []string
		for _, o := range offs {
			t = append(t, eq(o, i64(0)))
		}
		for i, l := range lens {
			t = append(t, sx("bvsle", l, i64(bound)), eq(caps[i], l))
		}
		tiers = append(tiers, t)
	}
	var t2 []string
	for _, o := range offs {
		t2 = append(t2, eq(o, i64(0)))
	}
	for i, l := range lens {
		t2 = append(t2, sx("bvsle", l, i64(maxReplayElems)), sx("bvsle", caps[i], i64(4096)))
	}
	return append(tiers, t2, nil)
}

func getValuesWith(vc *VC, o *Obligation, terms []string, dir string, extra []string) (modelVals, string) {
	if len(terms) == 0 {
		return modelVals{}, ""
	}
	script := vc.scriptFor(o)
	var spec solverSpec
	for _, s := range solvers {
		if s.name == o.Solver {
			spec = s
		}
	}
	if spec.name == "" {
		spec = solvers[0]
	}
	body := spec.pre
	if spec.name == "cvc5" {
		body = "(set-option :produce-models true)\n" + body
	}
	script = strings.TrimSuffix(script, "(check-sat)\n")
	for _, x := range extra {
		script += "(assert " + x + ")\n"
	}
	script += "(check-sat)\n"
	body += script
	for _, t := range terms {
		body += "(get-value (" + t + "))\n"
	}
	file := filepath.Join(dir, o.fileBase()+".values."+spec.name+".smt2")
	os.WriteFile(file, []byte(body), 0o644)
	ctx, cancel := context.WithTimeout(context.Background(), 40*time.Second)
	defer cancel()
	argv := spec.argv(file, 30)
	cmd := exec.CommandContext(ctx, argv[0], argv[1:]...)
	var out bytes.Buffer
	cmd.Stdout = &out
	cmd.Stderr = &out
	cmd.Run()
	lines := strings.Split(out.String(), "\n")
	mv := modelVals{}
	if len(lines) == 0 || strings.TrimSpace(lines[0]) != "sat" {
		return mv, out.String()
	}
	// each get-value prints ((term value)) possibly over several lines; join and split by "(("
	rest := strings.Join(lines[1:], " ")
	parts := strings.Split(rest, "((")
	k := 0
	for _, p := range parts[1:] {
		p = strings.TrimSpace(p)
		if k >= len(terms) {
			break
		}
		// p = "<term> <value>))"
		p = strings.TrimSuffix(strings.TrimSpace(p), "))")
		t := terms[k]
		k++
		idx := strings.Index(p, t)
		if idx != 0 {
			// solver may reprint the term differently; take the last token group as value
			mv[t] = lastSexp(p)
			continue
		}
		mv[t] = strings.TrimSpace(p[len(t):])
	}
	return mv, out.String()
}

func lastSexp(s string) string {
	s = strings.TrimSpace(s)
	if s == "" {
		return s
	}
	if s[len(s)-1] != ')' {
		i := strings.LastIndexAny(s, " \t")
		return s[i+1:]
	}
	depth := 0
	for i := len(s) - 1; i >= 0; i-- {
		switch s[i] {
		case ')':
			depth++
		case '(':
			depth--
			if depth == 0 {
				return s[i:]
			}
		}
	}
	return s
}

type replayGen struct {
	e          *Engine
	vc         *VC
	o          *Obligation
	fn         *ssa.Function
	pkg        *types.Package
	imports    map[string]string // path -> name
	terms      []string
	mv         modelVals
	entryH     func(name, sort string) string
	fail       string
	heapSlices [][3]string // off, len, cap terms of slices reached through pointer parameters
}

func (g *replayGen) qual(p *types.Package) string {
	if p == g.pkg {
		return ""
	}
	g.imports[p.Path()] = p.Name()
	return p.Name()
}

func (g *replayGen) typeStr(t types.Type) string { return types.TypeString(t, g.qual) }

// leafTerms enumerates the SMT terms whose values are needed to build a value of type t
// rooted at the given leaf symbols.
func (g *replayGen) want(t string) { g.terms = append(g.terms, t) }

func (g *replayGen) val(t string) (*big.Int, bool) {
	raw, ok := g.mv[t]
	if !ok {
		return nil, false
	}
	return parseSMTValue(raw)
}

func signedOf(v *big.Int, w int) *big.Int {
	if v.Bit(w-1) == 1 {
		return new(big.Int).Sub(v, new(big.Int).Lsh(big.NewInt(1), uint(w)))
	}
	return v
}

// collect registers the terms needed for value v (phase 1), build constructs Go source (phase 2).
func (g *replayGen) collect(v Val, depth int) {
	switch v.K {
	case KScalar, KArray, KRef:
		if v.K == KArray {
			n := v.T.Underlying().(*types.Array).Len()
			for i := int64(0); i < n && i < maxReplayElems; i++ {
				g.want(sel(v.S, i64(i)))
			}
			return
		}
		if b, ok := v.T.Underlying().(*types.Basic); ok && b.Info()&types.IsString != 0 {
			g.want(sx("s.len", v.S))
			for i := int64(0); i < 32; i++ {
				g.want(sx("s.at", v.S, i64(i)))
			}
			return
		}
		g.want(v.S)
	case KSlice:
		g.want(v.Sl[0])
		g.want(v.Sl[1])
		g.want(v.Sl[2])
		g.want(v.Sl[3])
		if depth > 0 {
			g.heapSlices = append(g.heapSlices, [3]string{v.Sl[1], v.Sl[2], v.Sl[3]})
		}
		et := v.T.Underlying().(*types.Slice).Elem()
		for _, lf := range leavesOf(et) {
			if lf.bad {
				continue
			}
			h := g.entryH(elemHeap(et, lf.path), arraySort(sortRef, arraySort(sortIdx, lf.sort)))
			for i := int64(0); i < maxReplayElems; i++ {
				g.want(sel(sel(h, v.Sl[0]), elemIdx(v.Sl[1], i64(i))))
			}
		}
	case KStruct:
		for _, f := range v.F {
			g.collect(f, depth+1)
		}
	case KIface:
		g.want(v.If[0])
	case KPtr:
		if v.L != nil && v.L.Kind == locObj && len(v.L.Path) == 0 && depth < 2 {
			g.want(v.L.Ref)
			if pv, ok := g.pointee(v); ok {
				g.collect(pv, depth+1)
			}
		}
	}
}

// pointee: the struct a pointer parameter points to, read from the entry heap.
func (g *replayGen) pointee(v Val) (Val, bool) {
	stt, ok := v.L.Base.Underlying().(*types.Struct)
	if !ok {
		return Val{}, false
	}
	out := Val{K: KStruct, T: v.L.Base}
	for i := 0; i < stt.NumFields(); i++ {
		ft := stt.Field(i).Type()
		ls := leavesOf(ft)
		terms := make([]string, len(ls))
		for j, lf := range ls {
			h := g.entryH(fieldHeap(v.L.Base, "."+stt.Field(i).Name()+lf.path), arraySort(sortRef, lf.sort))
			terms[j] = sel(h, v.L.Ref)
		}
		out.F = append(out.F, unflatten(ft, terms))
	}
	return out, true
}

func (g *replayGen) goValue(v Val) string {
	t := v.T
	switch v.K {
	case KScalar:
		switch u := t.Underlying().(type) {
		case *types.Basic:
			if w, signed, ok := intWidth(u); ok {
				x, ok := g.val(v.S)
				if !ok {
					x = big.NewInt(0)
				}
				if signed {
					x = signedOf(x, w)
				}
				return fmt.Sprintf("%s(%s)", g.typeStr(t), x.String())
			}
			if u.Info()&types.IsBoolean != 0 {
				x, _ := g.val(v.S)
				if x != nil && x.Sign() != 0 {
					return g.typeStr(t) + "(true)"
				}
				return g.typeStr(t) + "(false)"
			}
			if u.Info()&types.IsString != 0 {
				n, ok := g.val(sx("s.len", v.S))
				if !ok || !n.IsInt64() || n.Int64() > 32 {
					g.fail = "string parameter longer than replay window"
					return `""`
				}
				var bs []byte
				for i := int64(0); i < n.Int64(); i++ {
					c, _ := g.val(sx("s.at", v.S, i64(i)))
					if c == nil {
						c = big.NewInt(0)
					}
					bs = append(bs, byte(c.Int64()))
				}
				return fmt.Sprintf("%s(%q)", g.typeStr(t), string(bs))
			}
		}
	case KArray:
		at := t.Underlying().(*types.Array)
		var xs []string
		w, signed, isInt := isIntType(at.Elem())
		for i := int64(0); i < at.Len(); i++ {
			x, ok := g.val(sel(v.S, i64(i)))
			if !ok || !isInt {
				x = big.NewInt(0)
			}
			if signed {
				x = signedOf(x, w)
			}
			xs = append(xs, x.String())
		}
		return fmt.Sprintf("%s{%s}", g.typeStr(t), strings.Join(xs, ", "))
	case KSlice:
		st := t.Underlying().(*types.Slice)
		arr, _ := g.val(v.Sl[0])
		if arr == nil || arr.Sign() == 0 {
			return fmt.Sprintf("%s(nil)", g.typeStr(t))
		}
		ln, ok1 := g.val(v.Sl[2])
		cp, ok2 := g.val(v.Sl[3])
		if !ok1 || !ok2 || !ln.IsInt64() || !cp.IsInt64() || cp.Int64() > 1<<22 {
			g.fail = "slice too large to replay"
			return fmt.Sprintf("%s(nil)", g.typeStr(t))
		}
		w, signed, isInt := isIntType(st.Elem())
		if !isInt {
			g.fail = "slice of non-integer elements: no generic replay"
			return fmt.Sprintf("%s(nil)", g.typeStr(t))
		}
		h := g.entryH(elemHeap(st.Elem(), ""), arraySort(sortRef, arraySort(sortIdx, bvSort(w))))
		var xs []string
		n := cp.Int64()
		if n > maxReplayElems {
			n = maxReplayElems
		}
		for i := int64(0); i < n; i++ {
			x, ok := g.val(sel(sel(h, v.Sl[0]), elemIdx(v.Sl[1], i64(i))))
			if !ok {
				x = big.NewInt(0)
			}
			if signed {
				x = signedOf(x, w)
			}
			xs = append(xs, x.String())
		}
		return fmt.Sprintf("func() %s { b := make([]%s, %d); copy(b, []%s{%s}); return %s(b[:%d]) }()",
			g.typeStr(t), g.typeStr(st.Elem()), cp.Int64(), g.typeStr(st.Elem()), strings.Join(xs, ", "), g.typeStr(t), ln.Int64())
	case KStruct:
		stt := t.Underlying().(*types.Struct)
		var xs []string
		for i, f := range v.F {
			xs = append(xs, fmt.Sprintf("%s: %s", stt.Field(i).Name(), g.goValue(f)))
		}
		return fmt.Sprintf("%s{%s}", g.typeStr(t), strings.Join(xs, ", "))
	case KIface:
		tag, _ := g.val(v.If[0])
		if tag == nil || tag.Sign() == 0 {
			return "nil"
		}
	case KPtr:
		if v.L != nil && v.L.Kind == locObj && len(v.L.Path) == 0 {
			ref, _ := g.val(v.L.Ref)
			if ref == nil || ref.Sign() == 0 {
				return "nil"
			}
			if pv, ok := g.pointee(v); ok {
				stt := v.L.Base.Underlying().(*types.Struct)
				var xs []string
				for i, f := range pv.F {
					switch f.K {
					case KScalar, KSlice, KArray:
						saved := g.fail
						src := g.goValue(f)
						if g.fail != saved {
							// field type without a generic construction: leave it zero
							g.fail = saved
							continue
						}
						xs = append(xs, fmt.Sprintf("%s: %s", stt.Field(i).Name(), src))
					}
				}
				return fmt.Sprintf("&%s{%s}", g.typeStr(v.L.Base), strings.Join(xs, ", "))
			}
		}
	case KRef:
		return "nil"
	}
	g.fail = "parameter of type " + t.String() + " has no generic replay construction"
	return "nil"
}

var identRe = regexp.MustCompile(`^[A-Za-z_][A-Za-z0-9_]*$`)

func replayOnRealCode(e *Engine, vc *VC, o *Obligation, dir string) map[string]interface{} {
	fn := e.funcs[o.Func]
	if fn == nil || fn.Pkg == nil {
		return map[string]interface{}{"confirmed": false, "reason": "function not found"}
	}
	g := &replayGen{e: e, vc: vc, o: o, fn: fn, pkg: fn.Pkg.Pkg, imports: map[string]string{"fmt": "fmt", "testing": "testing"}}
	entry := &State{heap: map[string]string{}, epoch: "0"}
	g.entryH = func(name, srt string) string {
		if _, ok := vc.heapSorts[name]; !ok {
			return quote(name + "@0!unused")
		}
		return vc.heapGet(entry, name, srt)
	}
	// parameter values as symbolic Vals rebuilt from vc.inputs
	var params []Val
	for _, p := range fn.Params {
		ls := leavesOf(p.Type())
		terms := make([]string, len(ls))
		okAll := true
		for i, lf := range ls {
			t, ok := vc.inputs[p.Name()+lf.path]
			if !ok {
				okAll = false
			}
			terms[i] = t
		}
		if !okAll {
			return map[string]interface{}{"confirmed": false, "reason": "parameter " + p.Name() + " not representable"}
		}
		params = append(params, unflatten(p.Type(), terms))
	}
	for _, p := range params {
		g.collect(p, 0)
	}
	// only terms over declared symbols can be queried
	var terms []string
	seen := map[string]bool{}
	for _, t := range g.terms {
		if strings.Contains(t, "!unused") || seen[t] {
			continue
		}
		seen[t] = true
		terms = append(terms, t)
	}
	var lastRes map[string]interface{}
	attempts := 0
	for _, tier := range modelTiers(vc, g.heapSlices) {
		mv, raw := getValuesWith(vc, o, terms, dir, tier)
		if len(mv) == 0 {
			if lastRes == nil {
				lastRes = map[string]interface{}{"confirmed": false, "reason": "no model values", "solver_output": truncate(raw, 2000)}
			}
			continue
		}
		attempts++
		g.mv = mv
		g.fail = ""
		res := g.runReplay(params, dir, attempts)
		res["attempt"] = attempts
		lastRes = res
		if c, _ := res["confirmed"].(bool); c || attempts >= 4 {
			break
		}
	}
	if lastRes == nil {
		lastRes = map[string]interface{}{"confirmed": false, "reason": "no model"}
	}
	return lastRes
}

func (g *replayGen) runReplay(params []Val, dir string, attempt int) map[string]interface{} {
	e, o, fn := g.e, g.o, g.fn
	var decl []string
	var argNames []string
	inputs := map[string]string{}
	for i, p := range fn.Params {
		name := p.Name()
		if !identRe.MatchString(name) || name == "_" {
			name = fmt.Sprintf("arg%d", i)
		}
		name = "v_" + name
		src := g.goValue(params[i])
		decl = append(decl, fmt.Sprintf("\t%s := %s", name, src))
		argNames = append(argNames, name)
		inputs[p.Name()] = src
	}
	if g.fail != "" {
		return map[string]interface{}{"confirmed": false, "reason": g.fail, "inputs": inputs}
	}
	// call expression
	var call string
	nres := fn.Signature.Results().Len()
	var resNames []string
	for i := 0; i < nres; i++ {
		resNames = append(resNames, fmt.Sprintf("r%d", i))
	}
	if recv := fn.Signature.Recv(); recv != nil {
		call = fmt.Sprintf("%s.%s(%s)", argNames[0], fn.Name(), strings.Join(argNames[1:], ", "))
	} else {
		call = fmt.Sprintf("%s(%s)", fn.Name(), strings.Join(argNames, ", "))
	}
	if last := fn.Signature.Params().Len() - 1; fn.Signature.Variadic() && last >= 0 {
		call = strings.TrimSuffix(call, ")") + "...)"
	}
	var body strings.Builder
	body.WriteString("\tdefer func() {\n\t\tif r := recover(); r != nil {\n\t\t\tfmt.Printf(\"VERIF-REPLAY-PANIC: %v\\n\", r)\n\t\t}\n\t}()\n")
	body.WriteString(strings.Join(decl, "\n") + "\n")
	// snapshots for old()
	for i, p := range fn.Params {
		if _, ok := p.Type().Underlying().(*types.Slice); ok {
			fmt.Fprintf(&body, "\told_%s := append(%s(nil), %s...)\n\t_ = old_%s\n", argNames[i], g.typeStr(p.Type()), argNames[i], argNames[i])
		} else if pt, ok := p.Type().Underlying().(*types.Pointer); ok && isStructType(pt.Elem()) {
			// deep enough copy: the struct and its slice fields
			stt := pt.Elem().Underlying().(*types.Struct)
			fmt.Fprintf(&body, "\told_%s := new(%s)\n\t_ = old_%s\n\tif %s != nil {\n", argNames[i], g.typeStr(pt.Elem()), argNames[i], argNames[i])
			for k := 0; k < stt.NumFields(); k++ {
				f := stt.Field(k)
				switch f.Type().Underlying().(type) {
				case *types.Slice:
					fmt.Fprintf(&body, "\t\told_%s.%s = append(%s(nil), %s.%s...)\n", argNames[i], f.Name(), g.typeStr(f.Type()), argNames[i], f.Name())
				case *types.Basic:
					fmt.Fprintf(&body, "\t\told_%s.%s = %s.%s\n", argNames[i], f.Name(), argNames[i], f.Name())
				}
			}
			body.WriteString("\t}\n")
		} else {
			fmt.Fprintf(&body, "\told_%s := %s\n\t_ = old_%s\n", argNames[i], argNames[i], argNames[i])
		}
	}
	if nres > 0 {
		fmt.Fprintf(&body, "\t%s := %s\n", strings.Join(resNames, ", "), call)
		for _, r := range resNames {
			fmt.Fprintf(&body, "\t_ = %s\n", r)
		}
	} else {
		fmt.Fprintf(&body, "\t%s\n", call)
	}
	body.WriteString("\tfmt.Println(\"VERIF-REPLAY-RETURNED\")\n")
	for i, r := range resNames {
		fmt.Fprintf(&body, "\tfmt.Printf(\"VERIF-REPLAY-RESULT %d: %%#v\\n\", %s)\n", i, r)
	}
	clauseGo := ""
	if o.Kind == "ensures" {
		if con := e.cs.Funcs[o.Func]; con != nil {
			for i, en := range con.Ensures {
				if strings.HasSuffix(o.Name, fmt.Sprintf("#ensures%d", i+1)) || strings.Contains(o.Name, fmt.Sprintf("#ensures%d@", i+1)) {
					sc := &specCompiler{g: g, fn: fn, argName: map[string]string{}, res: resNames}
					for k, p := range fn.Params {
						sc.argName[p.Name()] = argNames[k]
					}
					src, err := sc.compile(en.Expr, false)
					if err == nil {
						clauseGo = src
						fmt.Fprintf(&body, "\tfmt.Printf(\"VERIF-REPLAY-ENSURES: %%v\\n\", %s)\n", src)
					} else {
						clauseGo = "not executable: " + err.Error()
					}
				}
			}
		}
	}
	var imps []string
	for p, n := range g.imports {
		imps = append(imps, fmt.Sprintf("\t%s %q", n, p))
	}
	sort.Strings(imps)
	src := fmt.Sprintf("package %s\n\n// generated by govc from the solver model of obligation\n// %s\n\nimport (\n%s\n)\n\nfunc TestVerifReplay(t *testing.T) {\n%s}\n\n%s",
		g.pkg.Name(), o.Name, strings.Join(imps, "\n"), body.String(), replayHelpers)
	pkgDir := ""
	if p := e.pkgs[g.pkg.Path()]; p != nil && len(p.GoFiles) > 0 {
		pkgDir = filepath.Dir(p.GoFiles[0])
	}
	if pkgDir == "" {
		return map[string]interface{}{"confirmed": false, "reason": "package directory unknown"}
	}
	testFile := filepath.Join(dir, fmt.Sprintf("%s.try%d_test.go", o.fileBase(), attempt))
	os.WriteFile(testFile, []byte(src), 0o644)
	ov := map[string]interface{}{"Replace": map[string]string{filepath.Join(pkgDir, "zz_verif_replay_test.go"): testFile}}
	ovb, _ := json.Marshal(ov)
	ovFile := filepath.Join(dir, fmt.Sprintf("%s.try%d.overlay.json", o.fileBase(), attempt))
	os.WriteFile(ovFile, ovb, 0o644)
	ctx, cancel := context.WithTimeout(context.Background(), 240*time.Second)
	defer cancel()
	cmd := exec.CommandContext(ctx, "go", "test", "-overlay", ovFile, "-vet=off", "-count=1", "-timeout", "60s", "-tags", "verif badger", "-run", "^TestVerifReplay$", "-v", ".")
	cmd.Dir = pkgDir
	cmd.Env = append(os.Environ(), "GOFLAGS=-mod=mod", "GOPROXY=off", "GOSUMDB=off", "GOTOOLCHAIN=local")
	var out bytes.Buffer
	cmd.Stdout = &out
	cmd.Stderr = &out
	cmd.Run()
	text := out.String()
	res := map[string]interface{}{"test_file": testFile, "inputs": inputs, "output": truncate(text, 4000), "clause_go": clauseGo,
		"cmd": "cd " + pkgDir + " && go test -overlay " + ovFile + " -vet=off -count=1 -timeout 60s -tags 'verif badger' -run '^TestVerifReplay$' -v ."}
	confirmed := false
	switch o.Kind {
	case "nopanic":
		confirmed = strings.Contains(text, "VERIF-REPLAY-PANIC")
	case "ensures":
		confirmed = strings.Contains(text, "VERIF-REPLAY-ENSURES: false")
		if strings.Contains(text, "VERIF-REPLAY-PANIC") {
			res["note"] = "the real function panicked on the model input"
			confirmed = true
		}
	}
	res["confirmed"] = confirmed
	return res
}

const replayHelpers = `
func vBE(b []byte, i int, n int) uint64 {
	var x uint64
	for k := 0; k < n; k++ {
		x = x<<8 | uint64(b[i+k])
	}
	return x
}

func vLE(b []byte, i int, n int) uint64 {
	var x uint64
	for k := n - 1; k >= 0; k-- {
		x = x<<8 | uint64(b[i+k])
	}
	return x
}

func vRangeEq(a []byte, ai int, b []byte, bi int, n int) bool {
	for k := 0; k < n; k++ {
		if a[ai+k] != b[bi+k] {
			return false
		}
	}
	return true
}

func vSeqEq(a, b []byte) bool {
	if len(a) != len(b) {
		return false
	}
	for i := range a {
		if a[i] != b[i] {
			return false
		}
	}
	return true
}

var _ = vBE
var _ = vLE
var _ = vRangeEq
var _ = vSeqEq
`

// ---------- spec expression -> Go ----------

type specCompiler struct {
	g       *replayGen
	fn      *ssa.Function
	argName map[string]string
	res     []string
	bound   map[string]bool
	subst   map[string]*SExpr
}

func (c *specCompiler) compile(x *SExpr, old bool) (string, error) {
	switch x.Op {
	case "int", "bool":
		return x.Name, nil
	case "nil":
		return "nil", nil
	case "str":
		return fmt.Sprintf("%q", x.Name), nil
	case "id":
		if c.subst != nil {
			if s, ok := c.subst[x.Name]; ok {
				inner := *c
				inner.subst = nil
				return inner.compile(s, old)
			}
		}
		if c.bound[x.Name] {
			return "q_" + x.Name, nil
		}
		if a, ok := c.argName[x.Name]; ok {
			if old {
				return "old_" + a, nil
			}
			return a, nil
		}
		switch {
		case x.Name == "result" && len(c.res) > 0:
			return c.res[0], nil
		case x.Name == "err" && len(c.res) > 0:
			return c.res[len(c.res)-1], nil
		case strings.HasPrefix(x.Name, "result"):
			var k int
			if _, err := fmt.Sscanf(x.Name, "result%d", &k); err == nil && k < len(c.res) {
				return c.res[k], nil
			}
		}
		// named results
		rs := c.fn.Signature.Results()
		for i := 0; i < rs.Len(); i++ {
			if rs.At(i).Name() == x.Name {
				return c.res[i], nil
			}
		}
		if o := c.g.pkg.Scope().Lookup(x.Name); o != nil {
			return x.Name, nil
		}
		return "", fmt.Errorf("identifier %s", x.Name)
	case "un":
		a, err := c.compile(x.Args[0], old)
		if err != nil {
			return "", err
		}
		return "(" + x.Name + a + ")", nil
	case "bin":
		a, err := c.compile(x.Args[0], old)
		if err != nil {
			return "", err
		}
		b, err := c.compile(x.Args[1], old)
		if err != nil {
			return "", err
		}
		switch x.Name {
		case "==>":
			return "(!(" + a + ") || (" + b + "))", nil
		case "<==>":
			return "((" + a + ") == (" + b + "))", nil
		}
		return "(" + a + " " + x.Name + " " + b + ")", nil
	case "field":
		if x.Args[0].Op == "id" {
			if ip := findImport(c.g.pkg, x.Args[0].Name); ip != nil && ip != c.g.pkg {
				if _, isArg := c.argName[x.Args[0].Name]; !isArg {
					c.g.imports[ip.Path()] = ip.Name()
					return ip.Name() + "." + x.Name, nil
				}
			}
		}
		if x.Name == "arr" || x.Name == "off" {
			return "", fmt.Errorf("slice header facts are not executable")
		}
		a, err := c.compile(x.Args[0], old)
		if err != nil {
			return "", err
		}
		return a + "." + x.Name, nil
	case "index":
		a, err := c.compile(x.Args[0], old)
		if err != nil {
			return "", err
		}
		i, err := c.compile(x.Args[1], old)
		if err != nil {
			return "", err
		}
		return a + "[" + i + "]", nil
	case "slice":
		a, err := c.compile(x.Args[0], old)
		if err != nil {
			return "", err
		}
		lo, hi := "", ""
		if x.Args[1] != nil {
			if lo, err = c.compile(x.Args[1], old); err != nil {
				return "", err
			}
		}
		if x.Args[2] != nil {
			if hi, err = c.compile(x.Args[2], old); err != nil {
				return "", err
			}
		}
		return a + "[" + lo + ":" + hi + "]", nil
	case "forall", "exists":
		return c.quant(x, old)
	case "call":
		return c.call(x, old)
	}
	return "", fmt.Errorf("cannot compile %s", x.String())
}

func conjuncts(x *SExpr) []*SExpr {
	if x.Op == "bin" && x.Name == "&&" {
		return append(conjuncts(x.Args[0]), conjuncts(x.Args[1])...)
	}
	return []*SExpr{x}
}

func (c *specCompiler) quant(x *SExpr, old bool) (string, error) {
	if len(x.Vars) != 1 {
		return "", fmt.Errorf("multi-variable quantifier")
	}
	v := x.Vars[0]
	body := x.Args[0]
	var guard *SExpr
	if x.Op == "forall" && body.Op == "bin" && body.Name == "==>" {
		guard = body.Args[0]
	} else if x.Op == "exists" {
		guard = body
	}
	if guard == nil {
		return "", fmt.Errorf("quantifier without range guard")
	}
	var lo, hi string
	nc := *c
	nc.bound = map[string]bool{}
	for k := range c.bound {
		nc.bound[k] = true
	}
	for _, cj := range conjuncts(guard) {
		if cj.Op != "bin" {
			continue
		}
		l, r := cj.Args[0], cj.Args[1]
		isV := func(e *SExpr) bool { return e.Op == "id" && e.Name == v.Name }
		switch {
		case cj.Name == "<=" && isV(r):
			s, err := c.compile(l, old)
			if err == nil {
				lo = "int64(" + s + ")"
			}
		case cj.Name == ">=" && isV(l):
			s, err := c.compile(r, old)
			if err == nil {
				lo = "int64(" + s + ")"
			}
		case cj.Name == "<" && isV(l):
			s, err := c.compile(r, old)
			if err == nil {
				hi = "int64(" + s + ")"
			}
		case cj.Name == "<=" && isV(l):
			s, err := c.compile(r, old)
			if err == nil {
				hi = "int64(" + s + ")+1"
			}
		case cj.Name == ">" && isV(r):
			s, err := c.compile(l, old)
			if err == nil {
				hi = "int64(" + s + ")"
			}
		}
	}
	if lo == "" || hi == "" {
		return "", fmt.Errorf("quantifier range not recognised")
	}
	nc.bound[v.Name] = true
	b, err := nc.compile(body, old)
	if err != nil {
		return "", err
	}
	gt := v.Type
	if t := resolveType(v.Type, c.g.pkg); t != nil {
		gt = c.g.typeStr(t)
	}
	if x.Op == "forall" {
		return fmt.Sprintf("func() bool { for qq := %s; qq < %s; qq++ { q_%s := %s(qq); if !(%s) { return false } }; return true }()", lo, hi, v.Name, gt, b), nil
	}
	return fmt.Sprintf("func() bool { for qq := %s; qq < %s; qq++ { q_%s := %s(qq); if %s { return true } }; return false }()", lo, hi, v.Name, gt, b), nil
}

func (c *specCompiler) call(x *SExpr, old bool) (string, error) {
	args := func() ([]string, error) {
		var out []string
		for _, a := range x.Args {
			s, err := c.compile(a, old)
			if err != nil {
				return nil, err
			}
			out = append(out, s)
		}
		return out, nil
	}
	switch x.Name {
	case "old":
		return c.compile(x.Args[0], true)
	case "len", "cap":
		a, err := args()
		if err != nil {
			return "", err
		}
		return x.Name + "(" + a[0] + ")", nil
	case "fresh":
		return "true", nil
	case "ite":
		a, err := args()
		if err != nil {
			return "", err
		}
		return fmt.Sprintf("func() interface{} { if %s { return %s }; return %s }()", a[0], a[1], a[2]), fmt.Errorf("ite not executable")
	case "be16", "be32", "be64", "le16", "le32", "le64":
		a, err := args()
		if err != nil {
			return "", err
		}
		n := map[string]int{"16": 2, "32": 4, "64": 8}[x.Name[2:]]
		f := "vBE"
		if x.Name[:2] == "le" {
			f = "vLE"
		}
		return fmt.Sprintf("uint%d(%s([]byte(%s), int(%s), %d))", n*8, f, a[0], a[1], n), nil
	case "rangeeq":
		a, err := args()
		if err != nil {
			return "", err
		}
		return fmt.Sprintf("vRangeEq([]byte(%s), int(%s), []byte(%s), int(%s), int(%s))", a[0], a[1], a[2], a[3], a[4]), nil
	case "seqeq":
		a, err := args()
		if err != nil {
			return "", err
		}
		return fmt.Sprintf("vSeqEq([]byte(%s), []byte(%s))", a[0], a[1]), nil
	}
	if t := resolveType(x.Name, c.g.pkg); t != nil && len(x.Args) == 1 {
		a, err := args()
		if err != nil {
			return "", err
		}
		return c.g.typeStr(t) + "(" + a[0] + ")", nil
	}
	if sf, ok := c.g.e.cs.Specs[x.Name]; ok && sf.Body != nil {
		// macro expansion
		nc := *c
		nc.subst = map[string]*SExpr{}
		if c.subst != nil {
			return "", fmt.Errorf("nested spec function expansion")
		}
		for i, p := range sf.Params {
			nc.subst[p.Name] = x.Args[i]
		}
		return nc.compile(sf.Body, old)
	}
	if x.Recv != nil {
		r, err := c.compile(x.Recv, old)
		if err != nil {
			return "", err
		}
		a, err := args()
		if err != nil {
			return "", err
		}
		return r + "." + x.Name[strings.LastIndexByte(x.Name, '.')+1:] + "(" + strings.Join(a, ", ") + ")", nil
	}
	return "", fmt.Errorf("spec function %s is not executable", x.Name)
}

func isStructType(t types.Type) bool {
	_, ok := t.Underlying().(*types.Struct)
	return ok
}
