package main

// replayOnRealCode turns a solver model into an in-package Go test and runs it
// against the real code with `go test -overlay`.
func replayOnRealCode(e *Engine, vc *VC, o *Obligation, dir string) map[string]interface{} {
	return nil
}
