package main

// Evaluation of spec expressions into SMT terms over a symbolic state.

import (
	"fmt"
	"go/constant"
	"go/token"
	"go/types"
	"math/big"
	"strings"
)

type Env struct {
	vc    *VC
	st    *State
	old   *State
	vars  map[string]Val
	pkg   *types.Package
	depth int
	err   error
	qn    *int
}

func (e *Env) fail(format string, a ...interface{}) Val {
	if e.err == nil {
		e.err = fmt.Errorf(format, a...)
	}
	return bad(nil, fmt.Sprintf(format, a...))
}

func (e *Env) with(st *State) *Env {
	n := *e
	n.st = st
	return &n
}

func (e *Env) bind(name string, v Val) *Env {
	n := *e
	n.vars = make(map[string]Val, len(e.vars)+1)
	for k, x := range e.vars {
		n.vars[k] = x
	}
	n.vars[name] = v
	return &n
}

var basicTypes = map[string]types.Type{
	"int": types.Typ[types.Int], "int8": types.Typ[types.Int8], "int16": types.Typ[types.Int16], "int32": types.Typ[types.Int32], "int64": types.Typ[types.Int64],
	"uint": types.Typ[types.Uint], "uint8": types.Typ[types.Uint8], "uint16": types.Typ[types.Uint16], "uint32": types.Typ[types.Uint32], "uint64": types.Typ[types.Uint64],
	"byte": types.Typ[types.Uint8], "bool": types.Typ[types.Bool], "string": types.Typ[types.String], "uintptr": types.Typ[types.Uintptr],
	"float32": types.Typ[types.Float32], "float64": types.Typ[types.Float64], "rune": types.Typ[types.Int32],
	"error": types.Universe.Lookup("error").Type(),
}

func resolveType(name string, pkg *types.Package) types.Type {
	name = strings.TrimSpace(name)
	if t, ok := basicTypes[name]; ok {
		return t
	}
	if strings.HasPrefix(name, "[]") {
		el := resolveType(name[2:], pkg)
		if el == nil {
			return nil
		}
		return types.NewSlice(el)
	}
	if strings.HasPrefix(name, "map[") {
		depth := 0
		for i := 3; i < len(name); i++ {
			if name[i] == '[' {
				depth++
			} else if name[i] == ']' {
				depth--
				if depth == 0 {
					kt, vt := resolveType(name[4:i], pkg), resolveType(name[i+1:], pkg)
					if kt == nil || vt == nil {
						return nil
					}
					return types.NewMap(kt, vt)
				}
			}
		}
		return nil
	}
	if strings.HasPrefix(name, "*") {
		el := resolveType(name[1:], pkg)
		if el == nil {
			return nil
		}
		return types.NewPointer(el)
	}
	if pkg == nil {
		return nil
	}
	if i := strings.IndexByte(name, '.'); i >= 0 {
		ip := findImport(pkg, name[:i])
		if ip == nil {
			return nil
		}
		if o := ip.Scope().Lookup(name[i+1:]); o != nil {
			if tn, ok := o.(*types.TypeName); ok {
				return tn.Type()
			}
		}
		return nil
	}
	if o := pkg.Scope().Lookup(name); o != nil {
		if tn, ok := o.(*types.TypeName); ok {
			return tn.Type()
		}
	}
	return nil
}

func findImport(pkg *types.Package, name string) *types.Package {
	if pkg.Name() == name {
		return pkg
	}
	for _, ip := range pkg.Imports() {
		if ip.Name() == name {
			return ip
		}
	}
	// search transitively (one more level)
	for _, ip := range pkg.Imports() {
		for _, ip2 := range ip.Imports() {
			if ip2.Name() == name {
				return ip2
			}
		}
	}
	return nil
}

func (e *Env) evalBool(x *SExpr) string {
	v := e.eval(x)
	if v.K == KBad {
		if e.err == nil {
			e.err = fmt.Errorf("cannot evaluate %s: %s", x.String(), v.Why)
		}
		return "true"
	}
	if v.K != KScalar {
		e.fail("expression %s is not boolean", x.String())
		return "true"
	}
	return v.S
}

func (e *Env) eval(x *SExpr) Val {
	vc := e.vc
	switch x.Op {
	case "int":
		bi, ok := new(big.Int).SetString(x.Name, 0)
		if !ok {
			return e.fail("bad integer %s", x.Name)
		}
		return Val{K: KConst, C: bi}
	case "bool":
		return boolVal(x.Name)
	case "str":
		return Val{K: KScalar, T: types.Typ[types.String], S: vc.strLit(x.Name)}
	case "nil":
		return Val{K: KRef, T: types.Typ[types.UntypedNil], S: "0"}
	case "id":
		if v, ok := e.vars[x.Name]; ok {
			return v
		}
		if e.st != nil {
			if v, ok := e.st.ghost[x.Name]; ok {
				return v
			}
		}
		if e.pkg != nil {
			if o := e.pkg.Scope().Lookup(x.Name); o != nil {
				return e.objVal(o)
			}
		}
		return e.fail("unknown identifier %s", x.Name)
	case "un":
		a := e.eval(x.Args[0])
		switch x.Name {
		case "!":
			return vc.unop(e.st, token.NOT, a, token.Position{})
		case "-":
			return vc.unop(e.st, token.SUB, a, token.Position{})
		case "^":
			return vc.unop(e.st, token.XOR, a, token.Position{})
		case "*":
			if a.K == KPtr && a.L != nil {
				return vc.load(e.st, a.L)
			}
			return e.fail("cannot dereference %s", a.String())
		}
	case "bin":
		switch x.Name {
		case "==>":
			return boolVal(implies(e.evalBool(x.Args[0]), e.evalBool(x.Args[1])))
		case "<==>":
			return boolVal(eq(e.evalBool(x.Args[0]), e.evalBool(x.Args[1])))
		case "&&":
			return boolVal(and(e.evalBool(x.Args[0]), e.evalBool(x.Args[1])))
		case "||":
			return boolVal(or(e.evalBool(x.Args[0]), e.evalBool(x.Args[1])))
		}
		a, b := e.eval(x.Args[0]), e.eval(x.Args[1])
		if a.K == KBad {
			return a
		}
		if b.K == KBad {
			return b
		}
		// nil comparisons
		if x.Name == "==" || x.Name == "!=" {
			if isNilVal(b) {
				r := e.nilTest(a)
				if x.Name == "!=" {
					r = not(r)
				}
				return boolVal(r)
			}
			if isNilVal(a) {
				r := e.nilTest(b)
				if x.Name == "!=" {
					r = not(r)
				}
				return boolVal(r)
			}
		}
		op, ok := map[string]token.Token{"+": token.ADD, "-": token.SUB, "*": token.MUL, "/": token.QUO, "%": token.REM,
			"&": token.AND, "|": token.OR, "^": token.XOR, "&^": token.AND_NOT, "<<": token.SHL, ">>": token.SHR,
			"==": token.EQL, "!=": token.NEQ, "<": token.LSS, "<=": token.LEQ, ">": token.GTR, ">=": token.GEQ}[x.Name]
		if !ok {
			return e.fail("operator %s", x.Name)
		}
		// spec-level arithmetic never generates obligations: use a scratch state for div
		if op == token.QUO || op == token.REM {
			return e.specDiv(op, a, b)
		}
		if (op == token.SHL || op == token.SHR) && b.K != KConst {
			// avoid negative-shift obligation: treat shift count as unsigned
			if w, _, ok := isIntType(b.T); ok {
				b = Val{K: KScalar, T: uintOfWidth(w), S: b.S}
			}
		}
		return vc.binop(e.st, op, a, b, token.Position{})
	case "field":
		// package-qualified identifier?
		if x.Args[0].Op == "id" {
			if _, isVar := e.vars[x.Args[0].Name]; !isVar && e.pkg != nil {
				if ip := findImport(e.pkg, x.Args[0].Name); ip != nil {
					if o := ip.Scope().Lookup(x.Name); o != nil {
						return e.objVal(o)
					}
				}
			}
		}
		a := e.eval(x.Args[0])
		return e.field(a, x.Name)
	case "index":
		a := e.eval(x.Args[0])
		i := e.eval(x.Args[1])
		return e.index(a, i)
	case "slice":
		a := e.eval(x.Args[0])
		var lo, hi *Val
		if x.Args[1] != nil {
			v := e.eval(x.Args[1])
			lo = &v
		}
		if x.Args[2] != nil {
			v := e.eval(x.Args[2])
			hi = &v
		}
		return e.slice(a, lo, hi)
	case "forall", "exists":
		return e.quant(x)
	case "call":
		return e.call(x)
	}
	return e.fail("cannot evaluate %s", x.String())
}

func uintOfWidth(w int) types.Type {
	switch w {
	case 8:
		return types.Typ[types.Uint8]
	case 16:
		return types.Typ[types.Uint16]
	case 32:
		return types.Typ[types.Uint32]
	}
	return types.Typ[types.Uint64]
}

func isNilVal(v Val) bool {
	if v.K == KRef && v.T != nil {
		if b, ok := v.T.(*types.Basic); ok && b.Kind() == types.UntypedNil {
			return true
		}
	}
	return false
}

func (e *Env) nilTest(a Val) string {
	switch a.K {
	case KSlice:
		return eq(a.Sl[0], "0")
	case KIface:
		return eq(a.If[0], "0")
	case KRef:
		return eq(a.S, "0")
	case KPtr:
		if f, ok := flatten(a); ok {
			return eq(f[0], "0")
		}
		return "false"
	}
	e.fail("nil comparison of %s", a.String())
	return "true"
}

func (e *Env) specDiv(op token.Token, a, b Val) Val {
	if a.K == KConst && b.K == KConst {
		return constFold(op, a, b)
	}
	if a.K == KConst {
		a = e.vc.convert(e.st, a, b.T, token.Position{})
	}
	if b.K == KConst {
		b = e.vc.convert(e.st, b, a.T, token.Position{})
	}
	_, signed, ok := isIntType(a.T)
	if !ok {
		return e.fail("division of non-integers")
	}
	names := map[token.Token][2]string{token.QUO: {"bvudiv", "bvsdiv"}, token.REM: {"bvurem", "bvsrem"}}[op]
	if signed {
		return Val{K: KScalar, T: a.T, S: sx(names[1], a.S, b.S)}
	}
	return Val{K: KScalar, T: a.T, S: sx(names[0], a.S, b.S)}
}

func (e *Env) objVal(o types.Object) Val {
	switch o := o.(type) {
	case *types.Const:
		if o.Val().Kind() == constant.Int {
			if b, ok := o.Type().Underlying().(*types.Basic); ok && b.Info()&types.IsUntyped != 0 {
				bi, _ := new(big.Int).SetString(o.Val().ExactString(), 10)
				return Val{K: KConst, C: bi}
			}
		}
		t := o.Type()
		if b, ok := t.Underlying().(*types.Basic); ok && b.Info()&types.IsUntyped != 0 {
			t = types.Default(t)
		}
		return e.vc.constVal(t, o.Val())
	case *types.Var:
		// package-level variable: read from heap
		l := e.vc.globalLoc(o)
		return e.vc.load(e.st, l)
	}
	return e.fail("cannot use %s in a spec", o.Name())
}

func (e *Env) deref(a Val) Val {
	if a.K == KPtr && a.L != nil {
		return e.vc.load(e.st, a.L)
	}
	return a
}

func fieldIndex(t types.Type, name string) (int, bool) {
	st, ok := t.Underlying().(*types.Struct)
	if !ok {
		return 0, false
	}
	for i := 0; i < st.NumFields(); i++ {
		if st.Field(i).Name() == name {
			return i, true
		}
	}
	return 0, false
}

func (e *Env) field(a Val, name string) Val {
	if a.K == KBad {
		return a
	}
	if a.K == KPtr && a.L != nil {
		t := a.L.typeAt()
		if i, ok := fieldIndex(t, name); ok {
			return e.vc.load(e.st, a.L.extend(pathElem{Field: i}))
		}
		// embedded promotion (one level)
		if st, ok := t.Underlying().(*types.Struct); ok {
			for i := 0; i < st.NumFields(); i++ {
				if st.Field(i).Embedded() {
					if _, isStruct := st.Field(i).Type().Underlying().(*types.Struct); isStruct {
						// promote through the location: the embedded struct may hold fields that cannot be loaded as a value
						if j, ok := fieldIndex(st.Field(i).Type(), name); ok {
							return e.vc.load(e.st, a.L.extend(pathElem{Field: i}).extend(pathElem{Field: j}))
						}
						continue
					}
					inner := e.vc.load(e.st, a.L.extend(pathElem{Field: i}))
					r := e.fieldQuiet(inner, name)
					if r.K != KBad {
						return r
					}
				}
			}
		}
		return e.fail("no field %s in %s", name, t)
	}
	if a.K == KStruct || a.K == KTuple {
		if a.K == KTuple {
			var k int
			if _, err := fmt.Sscan(name, &k); err == nil && k < len(a.F) {
				return a.F[k]
			}
		}
		if i, ok := fieldIndex(a.T, name); ok {
			return a.F[i]
		}
		if st, ok := a.T.Underlying().(*types.Struct); ok {
			for i := 0; i < st.NumFields(); i++ {
				if st.Field(i).Embedded() {
					r := e.fieldQuiet(a.F[i], name)
					if r.K != KBad {
						return r
					}
				}
			}
		}
	}
	if a.K == KSlice {
		switch name {
		case "arr":
			return Val{K: KRef, T: types.Typ[types.UnsafePointer], S: a.Sl[0]}
		case "off":
			return intVal(a.Sl[1])
		}
	}
	return e.fail("no field %s in %s", name, a.String())
}

func (e *Env) fieldQuiet(a Val, name string) Val {
	saved := e.err
	r := e.field(a, name)
	if r.K == KBad {
		e.err = saved
	}
	return r
}

func (e *Env) index(a, i Val) Val {
	if a.K == KBad {
		return a
	}
	if i.K == KBad {
		return i
	}
	idx := toIdx(i)
	switch a.K {
	case KGhost:
		if f, ok := flatten(i); ok && len(f) == 1 {
			return boolVal(sel(a.S, f[0]))
		}
	case KSlice:
		et := a.T.Underlying().(*types.Slice).Elem()
		return e.vc.load(e.st, &Loc{Kind: locElem, Ref: a.Sl[0], Idx: elemIdx(a.Sl[1], idx), Base: et})
	case KArray:
		et := a.T.Underlying().(*types.Array).Elem()
		return unflatten(et, []string{sel(a.S, idx)})
	case KScalar:
		e.vc.declStr()
		return Val{K: KScalar, T: types.Typ[types.Uint8], S: sx("s.at", a.S, idx)}
	case KPtr:
		if a.L != nil {
			if at, ok := a.L.typeAt().Underlying().(*types.Array); ok {
				if a.L.Kind == locArr {
					return e.vc.load(e.st, &Loc{Kind: locElem, Ref: a.L.Ref, Idx: idx, Base: at.Elem()})
				}
				return e.vc.load(e.st, a.L.extend(pathElem{Field: -1, Idx: idx}))
			}
		}
	case KRef:
		if mt, ok := a.T.Underlying().(*types.Map); ok {
			v, _ := e.vc.mapLookup(e.st, a, i, mt)
			return v
		}
	}
	return e.fail("cannot index %s", a.String())
}

func (e *Env) slice(a Val, lo, hi *Val) Val {
	l := i64(0)
	if lo != nil {
		l = toIdx(*lo)
	}
	switch a.K {
	case KSlice:
		h := a.Sl[2]
		if hi != nil {
			h = toIdx(*hi)
		}
		return Val{K: KSlice, T: a.T, Sl: [4]string{a.Sl[0], bvAdd(a.Sl[1], l), bvSub(h, l), bvSub(a.Sl[3], l)}}
	}
	return e.fail("cannot slice %s", a.String())
}

func (e *Env) quant(x *SExpr) Val {
	n := e
	var binders []string
	for _, v := range x.Vars {
		t := resolveType(v.Type, e.pkg)
		if t == nil {
			return e.fail("unknown type %s in quantifier", v.Type)
		}
		ls := leavesOf(t)
		if len(ls) != 1 || ls[0].bad {
			return e.fail("quantified variable %s must be scalar", v.Name)
		}
		*e.qn++
		sym := quote(fmt.Sprintf("%s!q%d", v.Name, *e.qn))
		binders = append(binders, fmt.Sprintf("(%s %s)", sym, ls[0].sort))
		n = n.bind(v.Name, unflatten(t, []string{sym}))
	}
	body := n.evalBool(x.Args[0])
	if n.err != nil && e.err == nil {
		e.err = n.err
	}
	if len(x.Trig) > 0 {
		var ts []string
		for _, tr := range x.Trig {
			tv := n.eval(tr)
			f, ok := flatten(tv)
			if !ok || len(f) == 0 {
				return e.fail("bad trigger %s", tr.String())
			}
			// solvers reject patterns containing boolean structure
			if strings.Contains(f[0], "(ite ") || strings.Contains(f[0], "(and ") || strings.Contains(f[0], "(not ") || strings.Contains(f[0], "(or ") {
				ts = nil
				break
			}
			ts = append(ts, f[0])
		}
		if len(ts) > 0 {
			body = fmt.Sprintf("(! %s :pattern (%s))", body, strings.Join(ts, " "))
		}
	}
	return boolVal(fmt.Sprintf("(%s (%s) %s)", x.Op, strings.Join(binders, " "), body))
}

func (e *Env) byteAt(a Val, idx string) string {
	v := e.index(a, Val{K: KScalar, T: types.Typ[types.Int], S: idx})
	if v.K != KScalar {
		e.fail("byte access on %s", a.String())
		return bvInt(0, 8)
	}
	return v.S
}

func (e *Env) call(x *SExpr) Val {
	vc := e.vc
	name := x.Name
	argv := func(i int) Val { return e.eval(x.Args[i]) }
	switch name {
	case "old":
		if e.old == nil {
			return e.fail("old() not available here")
		}
		return e.with(e.old).eval(x.Args[0])
	case "len":
		return vc.lenOf(e.st, e.deref(argv(0)))
	case "cap":
		return vc.capOf(e.st, argv(0))
	case "ite":
		c := e.evalBool(x.Args[0])
		a, b := argv(1), argv(2)
		if a.K == KConst && b.K == KConst {
			a = vc.convert(e.st, a, types.Typ[types.Int], token.Position{})
			b = vc.convert(e.st, b, types.Typ[types.Int], token.Position{})
		}
		if a.K == KConst && b.K != KConst {
			a = vc.convert(e.st, a, b.T, token.Position{})
		}
		if b.K == KConst && a.K != KConst {
			b = vc.convert(e.st, b, a.T, token.Position{})
		}
		fa, ok1 := flatten(a)
		fb, ok2 := flatten(b)
		if !ok1 || !ok2 || len(fa) != len(fb) {
			return e.fail("ite on incompatible values")
		}
		out := make([]string, len(fa))
		for i := range fa {
			out[i] = ite(c, fa[i], fb[i])
		}
		return unflatten(a.T, out)
	case "be16", "be32", "be64", "le16", "le32", "le64":
		a := argv(0)
		i := toIdx(argv(1))
		n := map[string]int{"16": 2, "32": 4, "64": 8}[name[2:]]
		var bs []string
		for k := 0; k < n; k++ {
			bs = append(bs, e.byteAt(a, bvAdd(i, i64(int64(k)))))
		}
		if name[:2] == "le" {
			for l, r := 0, len(bs)-1; l < r; l, r = l+1, r-1 {
				bs[l], bs[r] = bs[r], bs[l]
			}
		}
		return Val{K: KScalar, T: uintOfWidth(n * 8), S: sx("concat", bs...)}
	case "seqeq":
		a, b := argv(0), argv(1)
		la, lb := vc.lenOf(e.st, a), vc.lenOf(e.st, b)
		*e.qn++
		q := quote(fmt.Sprintf("k!q%d", *e.qn))
		body := implies(and(sx("bvsle", i64(0), q), sx("bvslt", q, la.S)), eq(e.byteAt(a, q), e.byteAt(b, q)))
		return boolVal(and(eq(la.S, lb.S), fmt.Sprintf("(forall ((%s %s)) %s)", q, sortIdx, body)))
	case "rangeeq":
		// rangeeq(a, ai, b, bi, n)
		a, ai, b, bi, n := argv(0), toIdx(argv(1)), argv(2), toIdx(argv(3)), toIdx(argv(4))
		*e.qn++
		q := quote(fmt.Sprintf("k!q%d", *e.qn))
		body := implies(and(sx("bvsle", i64(0), q), sx("bvslt", q, n)), eq(e.byteAt(a, bvAdd(ai, q)), e.byteAt(b, bvAdd(bi, q))))
		return boolVal(fmt.Sprintf("(forall ((%s %s)) %s)", q, sortIdx, body))
	case "fresh":
		a := argv(0)
		if e.old == nil {
			return e.fail("fresh() needs a pre-state")
		}
		switch a.K {
		case KSlice:
			return boolVal(sx(">=", a.Sl[0], e.old.next))
		case KPtr:
			if f, ok := flatten(a); ok {
				return boolVal(sx(">=", f[0], e.old.next))
			}
		case KRef:
			return boolVal(sx(">=", a.S, e.old.next))
		}
		return e.fail("fresh of %s", a.String())
	case "sameslice":
		a, b := argv(0), argv(1)
		if a.K != KSlice || b.K != KSlice {
			return e.fail("sameslice of non-slices")
		}
		return boolVal(and(eq(a.Sl[0], b.Sl[0]), eq(a.Sl[1], b.Sl[1]), eq(a.Sl[2], b.Sl[2])))
	case "isErr":
		a := argv(0)
		return boolVal(not(e.nilTest(a)))
	case "typeis":
		// typeis(x, "pkg.T")
		a := argv(0)
		if a.K != KIface || x.Args[1].Op != "str" {
			return e.fail("typeis(iface, \"type\")")
		}
		t := resolveType(x.Args[1].Name, e.pkg)
		if t == nil {
			return e.fail("unknown type %s", x.Args[1].Name)
		}
		return boolVal(eq(a.If[0], vc.typeTag(t)))
	case "asiface":
		// asiface(x, "pkg.Iface"): the same dynamic value viewed through another interface type
		a := argv(0)
		if a.K != KIface || x.Args[1].Op != "str" {
			return e.fail("asiface(iface, \"type\")")
		}
		t := resolveType(x.Args[1].Name, e.pkg)
		if t == nil {
			return e.fail("unknown type %s", x.Args[1].Name)
		}
		a.T = t
		return a
	case "iface_ptr":
		// iface_ptr(x, "*pkg.T"): payload viewed as pointer
		a := argv(0)
		t := resolveType(x.Args[1].Name, e.pkg)
		if a.K != KIface || t == nil {
			return e.fail("iface_ptr")
		}
		return ptrFromRef(t, a.If[1])
	case "bytesult":
		// bytesult(a, ai, b, bi, n) with literal n: the n bytes of a from ai, read as one big-endian
		// number, are below those of b (= lexicographic order of equal-length byte strings)
		a, ai, b, bi := argv(0), toIdx(argv(1)), argv(2), toIdx(argv(3))
		nv := argv(4)
		if nv.K != KConst || !nv.C.IsInt64() || nv.C.Int64() > 32 || nv.C.Int64() < 1 {
			return e.fail("bytesult needs a literal length <= 32")
		}
		var as, bs []string
		for k := int64(0); k < nv.C.Int64(); k++ {
			as = append(as, e.byteAt(a, bvAdd(ai, i64(k))))
			bs = append(bs, e.byteAt(b, bvAdd(bi, i64(k))))
		}
		if len(as) == 1 {
			return boolVal(sx("bvult", as[0], bs[0]))
		}
		return boolVal(sx("bvult", sx("concat", as...), sx("concat", bs...)))
	case "within":
		// within(a, b): slice a lies inside the first len(b) elements of b's backing array window
		a, b := argv(0), argv(1)
		if a.K != KSlice || b.K != KSlice {
			return e.fail("within of non-slices")
		}
		return boolVal(and(eq(a.Sl[0], b.Sl[0]), sx("bvsle", b.Sl[1], a.Sl[1]), sx("bvsle", i64(0), a.Sl[2]), sx("bvsle", bvAdd(a.Sl[1], a.Sl[2]), bvAdd(b.Sl[1], b.Sl[2]))))
	case "setadd", "setdel":
		// setadd(S, k) / setdel(S, k): ghost set S with k added / removed
		sv, k := argv(0), argv(1)
		if sv.K != KGhost {
			return e.fail("%s: first argument is not a ghost set", name)
		}
		if k.K == KConst {
			k = vc.convert(e.st, k, types.Typ[types.Int], token.Position{})
		}
		f, ok := flatten(k)
		if !ok || len(f) != 1 {
			return e.fail("%s: key must be scalar", name)
		}
		val := "true"
		if name == "setdel" {
			val = "false"
		}
		return Val{K: KGhost, GSort: sv.GSort, S: store(sv.S, f[0], val)}
	case "lockepoch":
		// lockepoch("path"): how many times the mutex has been acquired so far in this function; two
		// program points with the same epoch and the mutex held lie in one critical section
		if len(x.Args) != 1 || x.Args[0].Op != "str" || e.st == nil {
			return e.fail("lockepoch(\"mutex access path\")")
		}
		n := e.st.locks["#n:"+x.Args[0].Name]
		if n < 0 {
			return intVal(vc.sc.fresh("epoch.unknown", sortIdx))
		}
		return intVal(i64(int64(n)))
	case "held", "heldw":
		// held("path") / heldw("path"): the mutex with this source access path is held on every path
		// reaching this point (heldw: in write mode). Lockset state of the function under verification.
		if len(x.Args) != 1 || x.Args[0].Op != "str" || e.st == nil {
			return e.fail("held(\"mutex access path\")")
		}
		m := e.st.locks[x.Args[0].Name]
		if m == 3 {
			m = 0
		}
		if name == "heldw" {
			return boolVal(map[bool]string{true: "true", false: "false"}[m == 2])
		}
		return boolVal(map[bool]string{true: "true", false: "false"}[m >= 1])
	case "has":
		// has(m, k): key k is present in map m
		m, k := argv(0), argv(1)
		if m.K == KBad {
			return m
		}
		if m.T == nil {
			return e.fail("has: untyped map argument")
		}
		mt, ok := m.T.Underlying().(*types.Map)
		if m.K != KRef || !ok {
			return e.fail("has: not a map")
		}
		if k.K == KConst {
			k = vc.convert(e.st, k, mt.Key(), token.Position{})
		}
		_, found := vc.mapLookup(e.st, m, k, mt)
		return boolVal(found)
	case "allnonnil":
		m := argv(0)
		mt, ok := m.T.Underlying().(*types.Map)
		if m.K != KRef || !ok {
			return e.fail("allnonnil of non-map")
		}
		ks, ok := vc.mapKeySort(mt)
		if !ok {
			return e.fail("allnonnil: composite key")
		}
		base := "M:" + typeKey(mt)
		d := vc.heapGet(e.st, base+".dom", arraySort(sortRef, arraySort(ks, sortBool)))
		vls := leavesOf(mt.Elem())
		if len(vls) != 1 || vls[0].sort != sortRef {
			return e.fail("allnonnil: values are not references")
		}
		h := vc.heapGet(e.st, base+".val", arraySort(sortRef, arraySort(ks, sortRef)))
		*e.qn++
		q := quote(fmt.Sprintf("k!q%d", *e.qn))
		return boolVal(fmt.Sprintf("(forall ((%s %s)) (! (=> (select (select %s %s) %s) (not (= (select (select %s %s) %s) 0))) :pattern ((select (select %s %s) %s))))", q, ks, d, m.S, q, h, m.S, q, h, m.S, q))
	case "bytescmp":
		// bytescmp(a, b): the value bytes.Compare(a, b) returns in the current state (same model as the call)
		a, b := argv(0), argv(1)
		if a.K != KSlice || b.K != KSlice {
			return e.fail("bytescmp of non-slices")
		}
		return intrBytesCompare(vc, nil, e.st, []Val{a, b}, nil, token.Position{})
	case "crc32":
		a := argv(0)
		if a.K != KSlice {
			return e.fail("crc32 of non-slice")
		}
		h := vc.byteHeap(e.st)
		vc.sc.declareFun("crc32", []string{arraySort(sortIdx, bvSort(8)), sortIdx, sortIdx}, bvSort(32))
		return Val{K: KScalar, T: types.Typ[types.Uint32], S: sx("crc32", sel(h, a.Sl[0]), a.Sl[1], a.Sl[2])}
	case "tolower":
		a := argv(0)
		if a.K != KScalar {
			return e.fail("tolower of non-string")
		}
		vc.declStr()
		fn := quote("strings.ToLower")
		vc.sc.declareFun(fn, []string{sortStr}, sortStr)
		return Val{K: KScalar, T: types.Typ[types.String], S: sx(fn, a.S)}
	case "sext64":
		a := argv(0)
		return intVal(toIdx(a))
	}
	// type conversion?
	if t := resolveType(name, e.pkg); t != nil && len(x.Args) == 1 {
		a := argv(0)
		return vc.convert(e.st, a, t, token.Position{})
	}
	// user spec function
	if sf, ok := vc.eng.cs.Specs[name]; ok {
		return e.specCall(sf, x)
	}
	if x.Recv != nil {
		// pure interface method on a value
		recv := e.eval(x.Recv)
		mname := name[strings.LastIndexByte(name, '.')+1:]
		if recv.K == KIface && recv.T != nil {
			if it, ok := recv.T.Underlying().(*types.Interface); ok {
				for i := 0; i < it.NumMethods(); i++ {
					if it.Method(i).Name() == mname {
						key := types.TypeString(recv.T, nil) + "." + mname
						if !vc.eng.pureMethods[key] {
							return e.fail("method %s is not declared pure", key)
						}
						var args []Val
						for k := range x.Args {
							a := argv(k)
							if a.K == KConst {
								// untyped literal: give it the parameter's type
								if sig, ok := it.Method(i).Type().(*types.Signature); ok && k < sig.Params().Len() {
									a = vc.convert(e.st, a, sig.Params().At(k).Type(), token.Position{})
								}
							}
							if _, ok := flatten(a); !ok || a.K == KBad || a.T == nil {
								return e.fail("argument %d of %s is not usable here (%s)", k, name, a.Why)
							}
							args = append(args, a)
						}
						return vc.pureMethodCall(e.st, recv, key, it.Method(i), args)
					}
				}
			}
		}
		return e.fail("cannot call %s on %s", mname, recv.String())
	}
	return e.fail("unknown spec function %s", name)
}

func (e *Env) specCall(sf *SpecFunc, x *SExpr) Val {
	vc := e.vc
	if len(x.Args) != len(sf.Params) {
		return e.fail("spec func %s: want %d args", sf.Name, len(sf.Params))
	}
	pkg := e.pkg
	if sf.Pkg != "" {
		if p := vc.eng.typesPkg(sf.Pkg); p != nil {
			pkg = p
		}
	}
	var args []Val
	for i, p := range sf.Params {
		a := e.eval(x.Args[i])
		t := resolveType(p.Type, pkg)
		if t == nil {
			return e.fail("spec func %s: unknown type %s", sf.Name, p.Type)
		}
		if a.K == KConst {
			a = vc.convert(e.st, a, t, token.Position{})
		}
		args = append(args, a)
	}
	if sf.Body != nil {
		if e.depth > 40 {
			return e.fail("spec func recursion too deep in %s", sf.Name)
		}
		n := &Env{vc: vc, st: e.st, old: e.old, vars: map[string]Val{}, pkg: pkg, depth: e.depth + 1, qn: e.qn}
		// bound quantifier variables of the caller stay visible only through args
		for i, p := range sf.Params {
			n.vars[p.Name] = args[i]
		}
		r := n.eval(sf.Body)
		if n.err != nil && e.err == nil {
			e.err = fmt.Errorf("in %s: %v", sf.Name, n.err)
		}
		if rt := resolveType(sf.Ret, pkg); rt != nil && r.K == KConst {
			r = vc.convert(e.st, r, rt, token.Position{})
		}
		return r
	}
	// uninterpreted
	rt := resolveType(sf.Ret, pkg)
	if rt == nil {
		return e.fail("spec func %s: unknown result type %s", sf.Name, sf.Ret)
	}
	var sorts, terms []string
	for i, a := range args {
		f, ok := flatten(a)
		if !ok {
			return e.fail("spec func %s: argument %d not representable", sf.Name, i)
		}
		pt := resolveType(sf.Params[i].Type, pkg)
		for j, l := range leavesOf(pt) {
			sorts = append(sorts, l.sort)
			_ = j
		}
		terms = append(terms, f...)
	}
	if len(sorts) != len(terms) {
		return e.fail("spec func %s: argument shape mismatch", sf.Name)
	}
	rl := leavesOf(rt)
	out := make([]string, len(rl))
	for i, l := range rl {
		fn := quote("spec." + sf.Name + l.path)
		vc.sc.declareFun(fn, sorts, l.sort)
		if len(terms) == 0 {
			out[i] = fn
		} else {
			out[i] = sx(fn, terms...)
		}
	}
	return unflatten(rt, out)
}
