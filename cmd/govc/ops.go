package main

import (
	"fmt"
	"go/constant"
	"go/token"
	"go/types"
	"math/big"
	"regexp"
	"sort"
	"strings"
)

var bvLitRe = regexp.MustCompile(`^\(_ bv(\d+) (\d+)\)$`)

func bvLit(t string) (*big.Int, int, bool) {
	m := bvLitRe.FindStringSubmatch(t)
	if m == nil {
		return nil, 0, false
	}
	v, _ := new(big.Int).SetString(m[1], 10)
	var w int
	fmt.Sscan(m[2], &w)
	return v, w, true
}

// ---- linear normalisation of 64-bit add/sub terms ----

type linForm struct {
	w     int
	c     *big.Int
	atoms map[string]*big.Int
}

func splitArgs(t string) (head string, args []string, ok bool) {
	if len(t) < 2 || t[0] != '(' || t[len(t)-1] != ')' {
		return "", nil, false
	}
	body := t[1 : len(t)-1]
	i := strings.IndexByte(body, ' ')
	if i < 0 {
		return "", nil, false
	}
	head = body[:i]
	rest := body[i+1:]
	depth := 0
	start := 0
	inBar := false
	for j := 0; j < len(rest); j++ {
		ch := rest[j]
		if inBar {
			if ch == '|' {
				inBar = false
			}
			continue
		}
		switch ch {
		case '|':
			inBar = true
		case '(':
			depth++
		case ')':
			depth--
		case ' ':
			if depth == 0 {
				if j > start {
					args = append(args, rest[start:j])
				}
				start = j + 1
			}
		}
	}
	if start < len(rest) {
		args = append(args, rest[start:])
	}
	return head, args, true
}

func linearize(t string, sign int, lf *linForm) {
	if v, w, ok := bvLit(t); ok {
		if lf.w == 0 {
			lf.w = w
		}
		if sign > 0 {
			lf.c.Add(lf.c, v)
		} else {
			lf.c.Sub(lf.c, v)
		}
		return
	}
	if strings.HasPrefix(t, "(bvadd ") || strings.HasPrefix(t, "(bvsub ") {
		head, args, ok := splitArgs(t)
		if ok && len(args) >= 2 {
			linearize(args[0], sign, lf)
			for _, a := range args[1:] {
				if head == "bvadd" {
					linearize(a, sign, lf)
				} else {
					linearize(a, -sign, lf)
				}
			}
			return
		}
	}
	c, ok := lf.atoms[t]
	if !ok {
		c = new(big.Int)
		lf.atoms[t] = c
	}
	c.Add(c, big.NewInt(int64(sign)))
}

func linBuild(lf *linForm, w int) string {
	var names []string
	for a, c := range lf.atoms {
		if c.Sign() != 0 {
			names = append(names, a)
		}
	}
	sort.Strings(names)
	mod := new(big.Int).Lsh(big.NewInt(1), uint(w))
	cst := new(big.Int).Mod(lf.c, mod)
	var pos, neg []string
	for _, a := range names {
		c := lf.atoms[a]
		n := new(big.Int).Abs(c)
		term := a
		if n.Cmp(big.NewInt(1)) != 0 {
			term = sx("bvmul", bvConst(n, w), a)
		}
		if c.Sign() > 0 {
			pos = append(pos, term)
		} else {
			neg = append(neg, term)
		}
	}
	var acc string
	if len(pos) == 0 {
		acc = bvConst(cst, w)
		cst = new(big.Int)
	} else {
		acc = pos[0]
		for _, p := range pos[1:] {
			acc = sx("bvadd", acc, p)
		}
	}
	for _, n := range neg {
		acc = sx("bvsub", acc, n)
	}
	if cst.Sign() != 0 {
		// prefer small negative constants as subtraction
		half := new(big.Int).Rsh(mod, 1)
		if cst.Cmp(half) > 0 {
			acc = sx("bvsub", acc, bvConst(new(big.Int).Sub(mod, cst), w))
		} else {
			acc = sx("bvadd", acc, bvConst(cst, w))
		}
	}
	return acc
}

func bvWidthOf(a, b string) int {
	if _, w, ok := bvLit(a); ok {
		return w
	}
	if _, w, ok := bvLit(b); ok {
		return w
	}
	return 0
}

func bvAddSub(a, b string, sign int) string {
	lf := &linForm{c: new(big.Int), atoms: map[string]*big.Int{}}
	linearize(a, 1, lf)
	linearize(b, sign, lf)
	w := lf.w
	if w == 0 {
		// no literal anywhere: width unknown; only cancel identical atoms
		nz := 0
		for _, c := range lf.atoms {
			if c.Sign() != 0 {
				nz++
			}
		}
		if nz == len(lf.atoms) && len(lf.atoms) > 0 {
			if sign > 0 {
				return sx("bvadd", a, b)
			}
			return sx("bvsub", a, b)
		}
		if nz == 0 {
			// everything cancelled but width unknown: keep original
			if sign > 0 {
				return sx("bvadd", a, b)
			}
			return sx("bvsub", a, b)
		}
		w = -1
	}
	if w == -1 {
		// rebuild without constants
		lf.c = new(big.Int)
		return linBuild(lf, 64)
	}
	return linBuild(lf, w)
}

// elemIdx builds the address of element idx of a slice with offset off in the canonical shape
// (bvadd <offset atom> <rest>): quantified invariants over s[j] have the pattern
// (select A (bvadd off j)), and E-matching is syntactic, so the offset atom must stay separate
// from the (normalised) index part.
func elemIdx(off, idx string) string {
	lf := &linForm{c: new(big.Int), atoms: map[string]*big.Int{}}
	linearize(off, 1, lf)
	linearize(idx, 1, lf)
	head := ""
	for a, c := range lf.atoms {
		if c.Cmp(big.NewInt(1)) == 0 && strings.Contains(a, ".off") && !strings.HasPrefix(a, "(bv") {
			if head == "" || a < head {
				head = a
			}
		}
	}
	if head == "" {
		if _, _, isLit := bvLit(off); isLit {
			return bvAdd(off, idx)
		}
		return mkIdx(off, idx)
	}
	delete(lf.atoms, head)
	w := lf.w
	if w == 0 {
		w = 64
	}
	rest := linBuild(lf, w)
	return mkIdx(head, rest)
}

func bvAdd(a, b string) string { return bvAddSub(a, b, 1) }
func bvSub(a, b string) string { return bvAddSub(a, b, -1) }

func i64(n int64) string { return bvInt(n, 64) }

// ---------- memory ----------

func pathPrefix(base types.Type, path []pathElem) (prefix string, t types.Type, idx string) {
	t = base
	for _, p := range path {
		switch u := t.Underlying().(type) {
		case *types.Struct:
			prefix += "." + u.Field(p.Field).Name()
			t = u.Field(p.Field).Type()
		case *types.Array:
			idx = p.Idx
			t = u.Elem()
		}
	}
	return
}

func (vc *VC) nilCheck(st *State, l *Loc, pos token.Position, what string) {
	if l.Kind == locObj || l.Kind == locArr || l.Kind == locElem {
		if strings.HasPrefix(l.Ref, "g!") || strings.HasPrefix(l.Ref, "|g!") {
			return
		}
		vc.oblige(st, "nopanic", "nopanic.nil:"+what, "nil dereference", pos, not(eq(l.Ref, "0")))
	}
}

func (vc *VC) load(st *State, l *Loc) Val {
	switch l.Kind {
	case locCell:
		v, ok := st.cells[l.Cell]
		if !ok {
			return bad(l.Cell.T, "cell "+l.Cell.Name+" not live")
		}
		for _, p := range l.Path {
			if v.K == KBad {
				return v
			}
			if p.Field >= 0 {
				v = v.F[p.Field]
			} else {
				et := v.T.Underlying().(*types.Array).Elem()
				v = unflatten(et, []string{sel(v.S, p.Idx)})
			}
		}
		return v
	case locObj, locElem:
		prefix, t, idx := pathPrefix(l.Base, l.Path)
		return vc.loadLeaves(st, l, prefix, t, idx)
	case locArr:
		// whole array value
		at := l.Base
		ls := leavesOf(at)
		if ls[0].bad {
			return bad(at, "load of composite array")
		}
		el := at.Underlying().(*types.Array).Elem()
		els := leavesOf(el)
		hn := elemHeap(el, els[0].path)
		h := vc.heapGet(st, hn, arraySort(sortRef, arraySort(sortIdx, els[0].sort)))
		return Val{K: KArray, T: at, S: sel(h, l.Ref)}
	}
	return bad(nil, "load")
}

func (vc *VC) loadLeaves(st *State, l *Loc, prefix string, t types.Type, idx string) Val {
	var ls []leaf
	arrayElem := idx != ""
	var arrT types.Type
	if arrayElem {
		// t is the element type of an array leaf; the leaf is the array itself
		_, arrT, _ = pathPrefix(l.Base, l.Path[:len(l.Path)-1])
		ls = leavesOf(arrT)
	} else {
		ls = leavesOf(t)
	}
	terms := make([]string, len(ls))
	for i, lf := range ls {
		if lf.bad {
			return bad(t, "unsupported leaf in "+typeKey(l.Base)+prefix)
		}
		var cur string
		if l.Kind == locObj {
			h := vc.heapGet(st, fieldHeap(l.Base, prefix+lf.path), arraySort(sortRef, lf.sort))
			cur = sel(h, l.Ref)
		} else {
			h := vc.heapGet(st, elemHeap(l.Base, prefix+lf.path), arraySort(sortRef, arraySort(sortIdx, lf.sort)))
			cur = sel(sel(h, l.Ref), l.Idx)
		}
		terms[i] = cur
	}
	if arrayElem {
		return unflatten(t, []string{sel(terms[0], idx)})
	}
	v := unflatten(t, terms)
	return v
}

func (vc *VC) storeTo(st *State, l *Loc, v Val) {
	switch l.Kind {
	case locCell:
		if len(l.Path) == 0 {
			st.cells[l.Cell] = v
			return
		}
		root := st.cells[l.Cell]
		st.cells[l.Cell] = updatePath(root, l.Path, v)
		return
	case locObj, locElem:
		prefix, t, idx := pathPrefix(l.Base, l.Path)
		arrayElem := idx != ""
		var ls []leaf
		if arrayElem {
			_, arrT, _ := pathPrefix(l.Base, l.Path[:len(l.Path)-1])
			ls = leavesOf(arrT)
		} else {
			ls = leavesOf(t)
		}
		terms, ok := flatten(v)
		if !ok || v.K == KBad {
			// store of an unrepresentable value: havoc the leaves
			vc.unsupported("store of non-representable value into %s%s (%s)", typeKey(l.Base), prefix, v.String())
			terms = make([]string, len(ls))
			for i, lf := range ls {
				terms[i] = vc.sc.fresh("unk", lf.sort)
			}
			if arrayElem {
				terms = terms[:1]
			}
		}
		if !arrayElem && len(terms) != len(ls) {
			vc.unsupported("store: leaf count mismatch for %s%s", typeKey(l.Base), prefix)
			return
		}
		for i, lf := range ls {
			if lf.bad {
				vc.unsupported("store to unsupported leaf %s%s", typeKey(l.Base), prefix+lf.path)
				continue
			}
			if l.Kind == locObj {
				hn := fieldHeap(l.Base, prefix+lf.path)
				hs := arraySort(sortRef, lf.sort)
				h := vc.heapGet(st, hn, hs)
				nv := terms[i]
				if arrayElem {
					nv = store(sel(h, l.Ref), idx, terms[0])
				}
				vc.heapSet(st, hn, hs, vc.sc.define("h", hs, store(h, l.Ref, nv)))
			} else {
				hn := elemHeap(l.Base, prefix+lf.path)
				hs := arraySort(sortRef, arraySort(sortIdx, lf.sort))
				h := vc.heapGet(st, hn, hs)
				nv := terms[i]
				if arrayElem {
					nv = store(sel(sel(h, l.Ref), l.Idx), idx, terms[0])
				}
				vc.heapSet(st, hn, hs, vc.sc.define("h", hs, store(h, l.Ref, store(sel(h, l.Ref), l.Idx, nv))))
			}
		}
	case locArr:
		at := l.Base
		el := at.Underlying().(*types.Array).Elem()
		els := leavesOf(el)
		if len(els) != 1 || v.K != KArray {
			vc.unsupported("store of whole composite array")
			return
		}
		hn := elemHeap(el, els[0].path)
		hs := arraySort(sortRef, arraySort(sortIdx, els[0].sort))
		h := vc.heapGet(st, hn, hs)
		vc.heapSet(st, hn, hs, vc.sc.define("h", hs, store(h, l.Ref, v.S)))
	}
}

func updatePath(root Val, path []pathElem, v Val) Val {
	if len(path) == 0 {
		return v
	}
	if root.K == KBad {
		return root
	}
	p := path[0]
	if p.Field >= 0 {
		n := root
		n.F = append([]Val{}, root.F...)
		n.F[p.Field] = updatePath(root.F[p.Field], path[1:], v)
		return n
	}
	n := root
	t, ok := flatten(v)
	if !ok || len(t) != 1 {
		return bad(root.T, "array element update with composite")
	}
	n.S = store(root.S, p.Idx, t[0])
	return n
}

// ---------- integers ----------

func (vc *VC) constVal(t types.Type, c constant.Value) Val {
	if c == nil {
		return vc.zero(t)
	}
	switch u := t.Underlying().(type) {
	case *types.Basic:
		if w, _, ok := intWidth(u); ok {
			var bi *big.Int
			cv := constant.ToInt(c)
			if cv.Kind() == constant.Int {
				if x, exact := constant.Int64Val(cv); exact {
					bi = big.NewInt(x)
				} else {
					bi, _ = new(big.Int).SetString(cv.ExactString(), 10)
				}
			} else {
				bi = big.NewInt(0)
			}
			return Val{K: KScalar, T: t, S: bvConst(bi, w)}
		}
		switch {
		case u.Info()&types.IsBoolean != 0:
			if constant.BoolVal(c) {
				return Val{K: KScalar, T: t, S: "true"}
			}
			return Val{K: KScalar, T: t, S: "false"}
		case u.Info()&types.IsString != 0:
			return Val{K: KScalar, T: t, S: vc.strLit(constant.StringVal(c))}
		case u.Info()&types.IsFloat != 0:
			n := quote("fltc!" + c.ExactString())
			vc.sc.declare(n, sortF64)
			return Val{K: KScalar, T: t, S: n}
		}
	}
	return bad(t, "constant of type "+t.String())
}

func boolVal(t string) Val { return Val{K: KScalar, T: types.Typ[types.Bool], S: t} }
func intVal(t string) Val  { return Val{K: KScalar, T: types.Typ[types.Int], S: t} }

// toIdx converts an integer value to a 64-bit term (sign- or zero-extended).
func toIdx(v Val) string {
	if v.K == KConst {
		return bvConst(v.C, 64)
	}
	w, signed, ok := isIntType(v.T)
	if !ok {
		return v.S
	}
	return extend(v.S, w, 64, signed)
}

func extend(t string, from, to int, signed bool) string {
	if from == to {
		return t
	}
	if from > to {
		if x, _, ok := bvLit(t); ok {
			return bvConst(x, to)
		}
		return fmt.Sprintf("((_ extract %d 0) %s)", to-1, t)
	}
	if x, _, ok := bvLit(t); ok {
		if signed && x.Bit(from-1) == 1 {
			x = new(big.Int).Sub(x, new(big.Int).Lsh(big.NewInt(1), uint(from)))
		}
		return bvConst(x, to)
	}
	if signed {
		return fmt.Sprintf("((_ sign_extend %d) %s)", to-from, t)
	}
	return fmt.Sprintf("((_ zero_extend %d) %s)", to-from, t)
}

func (vc *VC) convert(st *State, v Val, to types.Type, pos token.Position) Val {
	if v.K == KBad {
		return bad(to, v.Why)
	}
	if v.K == KConst {
		if w, _, ok := isIntType(to); ok {
			return Val{K: KScalar, T: to, S: bvConst(v.C, w)}
		}
		return bad(to, "const conversion")
	}
	fw, fsigned, fint := isIntType(v.T)
	tw, _, tint := isIntType(to)
	if fint && tint {
		return Val{K: KScalar, T: to, S: extend(v.S, fw, tw, fsigned)}
	}
	fu, tu := v.T.Underlying(), to.Underlying()
	// string <-> []byte
	if fb, ok := fu.(*types.Basic); ok && fb.Info()&types.IsString != 0 {
		if ts, ok := tu.(*types.Slice); ok {
			if w, _, ok := isIntType(ts.Elem()); ok && w == 8 {
				return vc.stringToBytes(st, v, to)
			}
		}
		if tb, ok := tu.(*types.Basic); ok && tb.Info()&types.IsString != 0 {
			return Val{K: KScalar, T: to, S: v.S}
		}
	}
	if tb, ok := tu.(*types.Basic); ok && tb.Info()&types.IsString != 0 {
		if fs, ok := fu.(*types.Slice); ok {
			if w, _, ok := isIntType(fs.Elem()); ok && w == 8 {
				return vc.bytesToString(st, v, to)
			}
		}
		if fint {
			// string(rune): opaque
			s := vc.sc.fresh("strconv", sortStr)
			return Val{K: KScalar, T: to, S: s}
		}
	}
	// floats: opaque
	if tb, ok := tu.(*types.Basic); ok && tb.Info()&types.IsFloat != 0 {
		if fb, ok := fu.(*types.Basic); ok && fb.Info()&types.IsFloat != 0 {
			return Val{K: KScalar, T: to, S: v.S}
		}
		vc.sc.declareFun(fmt.Sprintf("int2flt%d", fw), []string{bvSort(fw)}, sortF64)
		return Val{K: KScalar, T: to, S: sx(fmt.Sprintf("int2flt%d", fw), v.S)}
	}
	if fb, ok := fu.(*types.Basic); ok && fb.Info()&types.IsFloat != 0 && tint {
		vc.sc.declareFun(fmt.Sprintf("flt2int%d", tw), []string{sortF64}, bvSort(tw))
		return Val{K: KScalar, T: to, S: sx(fmt.Sprintf("flt2int%d", tw), v.S)}
	}
	// same underlying structure: retag
	if types.Identical(fu, tu) || types.ConvertibleTo(v.T, to) {
		n := v
		n.T = to
		if v.K == KPtr {
			return n
		}
		return retag(v, to)
	}
	return bad(to, "conversion "+v.T.String()+" -> "+to.String())
}

func retag(v Val, to types.Type) Val {
	n := v
	n.T = to
	if v.K == KStruct {
		if st, ok := to.Underlying().(*types.Struct); ok && st.NumFields() == len(v.F) {
			n.F = make([]Val, len(v.F))
			for i := range v.F {
				n.F[i] = retag(v.F[i], st.Field(i).Type())
			}
		}
	}
	return n
}

func (vc *VC) bytesToString(st *State, v Val, to types.Type) Val {
	vc.declStr()
	s := vc.sc.fresh("str", sortStr)
	et := v.T.Underlying().(*types.Slice).Elem()
	h := vc.heapGet(st, elemHeap(et, ""), arraySort(sortRef, arraySort(sortIdx, bvSort(8))))
	vc.sc.assert(eq(sx("s.len", s), v.Sl[2]))
	i := "i!q"
	vc.sc.assert(fmt.Sprintf("(forall ((%s %s)) (! (=> (and (bvsle %s %s) (bvslt %s %s)) (= (s.at %s %s) %s)) :pattern ((s.at %s %s))))",
		i, sortIdx, i64(0), i, i, v.Sl[2], s, i, sel(sel(h, v.Sl[0]), elemIdx(v.Sl[1], i)), s, i))
	return Val{K: KScalar, T: to, S: s}
}

func (vc *VC) stringToBytes(st *State, v Val, to types.Type) Val {
	vc.declStr()
	et := to.Underlying().(*types.Slice).Elem()
	hn := elemHeap(et, "")
	hs := arraySort(sortRef, arraySort(sortIdx, bvSort(8)))
	h := vc.heapGet(st, hn, hs)
	r := vc.alloc(st, "arr")
	a := vc.sc.fresh("bytes", arraySort(sortIdx, bvSort(8)))
	i := "i!q"
	ln := sx("s.len", v.S)
	vc.sc.assert(fmt.Sprintf("(forall ((%s %s)) (! (=> (and (bvsle %s %s) (bvslt %s %s)) (= (select %s %s) (s.at %s %s))) :pattern ((select %s %s))))",
		i, sortIdx, i64(0), i, i, ln, a, i, v.S, i, a, i))
	vc.heapSet(st, hn, hs, vc.sc.define("h", hs, store(h, r, a)))
	return Val{K: KSlice, T: to, Sl: [4]string{r, i64(0), ln, ln}}
}

func (vc *VC) binop(st *State, op token.Token, a, b Val, pos token.Position) Val {
	if a.K == KBad {
		return a
	}
	if b.K == KBad {
		return b
	}
	// untyped constants adapt
	if a.K == KConst && b.K == KConst {
		return constFold(op, a, b)
	}
	if a.K == KConst {
		if op == token.SHL || op == token.SHR {
			a = Val{K: KScalar, T: types.Typ[types.Int], S: bvConst(a.C, 64)}
		} else {
			a = vc.convert(st, a, b.T, pos)
		}
	}
	if b.K == KConst {
		if op == token.SHL || op == token.SHR {
			b = Val{K: KScalar, T: types.Typ[types.Uint], S: bvConst(b.C, 64)}
		} else {
			b = vc.convert(st, b, a.T, pos)
		}
	}
	switch op {
	case token.EQL:
		return boolVal(vc.valEq(st, a, b))
	case token.NEQ:
		return boolVal(not(vc.valEq(st, a, b)))
	case token.LAND:
		return boolVal(and(a.S, b.S))
	case token.LOR:
		return boolVal(or(a.S, b.S))
	}
	w, signed, isInt := isIntType(a.T)
	if isInt {
		x, y := a.S, b.S
		rt := a.T
		switch op {
		case token.ADD:
			return Val{K: KScalar, T: rt, S: bvAdd(x, y)}
		case token.SUB:
			return Val{K: KScalar, T: rt, S: bvSub(x, y)}
		case token.MUL:
			return Val{K: KScalar, T: rt, S: sx("bvmul", x, y)}
		case token.QUO, token.REM:
			vc.oblige(st, "nopanic", "nopanic.div", "integer divide by zero", pos, not(eq(y, bvInt(0, w))))
			o := map[token.Token][2]string{token.QUO: {"bvudiv", "bvsdiv"}, token.REM: {"bvurem", "bvsrem"}}[op]
			if signed {
				return Val{K: KScalar, T: rt, S: sx(o[1], x, y)}
			}
			return Val{K: KScalar, T: rt, S: sx(o[0], x, y)}
		case token.AND:
			return Val{K: KScalar, T: rt, S: sx("bvand", x, y)}
		case token.OR:
			return Val{K: KScalar, T: rt, S: sx("bvor", x, y)}
		case token.XOR:
			return Val{K: KScalar, T: rt, S: sx("bvxor", x, y)}
		case token.AND_NOT:
			return Val{K: KScalar, T: rt, S: sx("bvand", x, sx("bvnot", y))}
		case token.SHL, token.SHR:
			yw, ysigned, _ := isIntType(b.T)
			if ysigned {
				vc.oblige(st, "nopanic", "nopanic.shift", "negative shift amount", pos, sx("bvsge", y, bvInt(0, yw)))
			}
			var amt string
			if yv, _, isLit := bvLit(y); isLit {
				if yv.Cmp(big.NewInt(int64(w))) >= 0 {
					amt = bvInt(int64(w), w)
				} else {
					amt = bvConst(yv, w)
				}
			} else if yw == w {
				amt = y
			} else if yw < w {
				amt = extend(y, yw, w, false)
			} else {
				// saturate
				amt = ite(sx("bvuge", y, bvInt(int64(w), yw)), bvInt(int64(w), w), extend(y, yw, w, false))
			}
			if op == token.SHL {
				return Val{K: KScalar, T: rt, S: sx("bvshl", x, amt)}
			}
			if signed {
				return Val{K: KScalar, T: rt, S: sx("bvashr", x, amt)}
			}
			return Val{K: KScalar, T: rt, S: sx("bvlshr", x, amt)}
		case token.LSS, token.LEQ, token.GTR, token.GEQ:
			names := map[token.Token][2]string{token.LSS: {"bvult", "bvslt"}, token.LEQ: {"bvule", "bvsle"}, token.GTR: {"bvugt", "bvsgt"}, token.GEQ: {"bvuge", "bvsge"}}[op]
			if signed {
				return boolVal(sx(names[1], x, y))
			}
			return boolVal(sx(names[0], x, y))
		}
	}
	if bt, ok := a.T.Underlying().(*types.Basic); ok {
		switch {
		case bt.Info()&types.IsString != 0:
			switch op {
			case token.ADD:
				vc.declStr()
				vc.sc.declareFun("s.cat", []string{sortStr, sortStr}, sortStr)
				r := sx("s.cat", a.S, b.S)
				vc.sc.assert(eq(sx("s.len", r), bvAdd(sx("s.len", a.S), sx("s.len", b.S))))
				return Val{K: KScalar, T: a.T, S: r}
			case token.LSS, token.LEQ, token.GTR, token.GEQ:
				vc.sc.declareFun("s.lt", []string{sortStr, sortStr}, sortBool)
				switch op {
				case token.LSS:
					return boolVal(sx("s.lt", a.S, b.S))
				case token.GTR:
					return boolVal(sx("s.lt", b.S, a.S))
				case token.LEQ:
					return boolVal(not(sx("s.lt", b.S, a.S)))
				default:
					return boolVal(not(sx("s.lt", a.S, b.S)))
				}
			}
		case bt.Info()&types.IsFloat != 0:
			fn := "flt." + strings.Map(func(r rune) rune {
				switch r {
				case '+':
					return 'a'
				case '-':
					return 's'
				case '*':
					return 'm'
				case '/':
					return 'd'
				case '<':
					return 'l'
				case '>':
					return 'g'
				case '=':
					return 'e'
				}
				return r
			}, op.String())
			switch op {
			case token.LSS, token.LEQ, token.GTR, token.GEQ:
				vc.sc.declareFun(fn, []string{sortF64, sortF64}, sortBool)
				return boolVal(sx(fn, a.S, b.S))
			}
			vc.sc.declareFun(fn, []string{sortF64, sortF64}, sortF64)
			return Val{K: KScalar, T: a.T, S: sx(fn, a.S, b.S)}
		}
	}
	return bad(a.T, "binop "+op.String()+" on "+a.T.String())
}

func constFold(op token.Token, a, b Val) Val {
	r := new(big.Int)
	switch op {
	case token.ADD:
		r.Add(a.C, b.C)
	case token.SUB:
		r.Sub(a.C, b.C)
	case token.MUL:
		r.Mul(a.C, b.C)
	case token.QUO:
		r.Quo(a.C, b.C)
	case token.REM:
		r.Rem(a.C, b.C)
	case token.SHL:
		r.Lsh(a.C, uint(b.C.Int64()))
	case token.SHR:
		r.Rsh(a.C, uint(b.C.Int64()))
	case token.EQL:
		return boolVal(fmt.Sprint(a.C.Cmp(b.C) == 0))
	case token.NEQ:
		return boolVal(fmt.Sprint(a.C.Cmp(b.C) != 0))
	case token.LSS:
		return boolVal(fmt.Sprint(a.C.Cmp(b.C) < 0))
	case token.LEQ:
		return boolVal(fmt.Sprint(a.C.Cmp(b.C) <= 0))
	case token.GTR:
		return boolVal(fmt.Sprint(a.C.Cmp(b.C) > 0))
	case token.GEQ:
		return boolVal(fmt.Sprint(a.C.Cmp(b.C) >= 0))
	default:
		return bad(nil, "const op "+op.String())
	}
	return Val{K: KConst, C: r}
}

// valEq: Go == on values.
func (vc *VC) valEq(st *State, a, b Val) string {
	switch a.K {
	case KScalar, KRef:
		if b.K == KPtr || b.K == KSlice || b.K == KIface {
			return vc.valEq(st, b, a)
		}
		return eq(a.S, b.S)
	case KPtr:
		fa, ok1 := flatten(a)
		var fb []string
		var ok2 bool
		if b.K == KScalar || b.K == KRef {
			fb, ok2 = []string{b.S}, true
		} else {
			fb, ok2 = flatten(b)
		}
		if ok1 && ok2 {
			return eq(fa[0], fb[0])
		}
		if a.L != nil && b.L != nil && sameVal(a, b) {
			return "true"
		}
		// pointer to cell vs nil
		if ok2 && fb[0] == "0" && a.L != nil {
			return "false"
		}
		if ok1 && fa[0] == "0" && b.L != nil {
			return "false"
		}
		vc.unsupported("pointer comparison")
		return vc.sc.fresh("unk", sortBool)
	case KSlice:
		// in Go only comparison with nil is legal; spec expressions (and struct equality in specs)
		// compare two slice values by their headers: same backing array, window and capacity
		if b.K == KSlice && b.Sl[0] != "0" && a.Sl[0] != "0" {
			return and(eq(a.Sl[0], b.Sl[0]), eq(a.Sl[1], b.Sl[1]), eq(a.Sl[2], b.Sl[2]), eq(a.Sl[3], b.Sl[3]))
		}
		if a.Sl[0] == "0" && b.K == KSlice {
			return eq(b.Sl[0], "0")
		}
		return eq(a.Sl[0], "0")
	case KIface:
		if b.K == KIface {
			if b.If[0] == "0" {
				return eq(a.If[0], "0")
			}
			if a.If[0] == "0" {
				return eq(b.If[0], "0")
			}
			return and(eq(a.If[0], b.If[0]), eq(a.If[1], b.If[1]))
		}
		return eq(a.If[0], "0")
	case KArray:
		n := a.T.Underlying().(*types.Array).Len()
		if n <= 16 {
			var cs []string
			for i := int64(0); i < n; i++ {
				cs = append(cs, eq(sel(a.S, i64(i)), sel(b.S, i64(i))))
			}
			return and(cs...)
		}
		return eq(a.S, b.S)
	case KStruct, KTuple:
		var cs []string
		for i := range a.F {
			cs = append(cs, vc.valEq(st, a.F[i], b.F[i]))
		}
		return and(cs...)
	}
	vc.unsupported("equality on %v", a.K)
	return vc.sc.fresh("unk", sortBool)
}

func (vc *VC) unop(st *State, op token.Token, a Val, pos token.Position) Val {
	if a.K == KBad {
		return a
	}
	if a.K == KConst {
		switch op {
		case token.SUB:
			return Val{K: KConst, C: new(big.Int).Neg(a.C)}
		case token.XOR:
			return Val{K: KConst, C: new(big.Int).Not(a.C)}
		}
	}
	switch op {
	case token.NOT:
		return Val{K: KScalar, T: a.T, S: not(a.S)}
	case token.SUB:
		if _, _, ok := isIntType(a.T); ok {
			if x, w, ok := bvLit(a.S); ok {
				return Val{K: KScalar, T: a.T, S: bvConst(new(big.Int).Neg(x), w)}
			}
			return Val{K: KScalar, T: a.T, S: sx("bvneg", a.S)}
		}
		vc.sc.declareFun("flt.neg", []string{sortF64}, sortF64)
		return Val{K: KScalar, T: a.T, S: sx("flt.neg", a.S)}
	case token.XOR:
		return Val{K: KScalar, T: a.T, S: sx("bvnot", a.S)}
	}
	return bad(a.T, "unop "+op.String())
}

// ---------- slices ----------

func (vc *VC) lenOf(st *State, v Val) Val {
	switch v.K {
	case KSlice:
		return intVal(v.Sl[2])
	case KScalar:
		vc.declStr()
		return intVal(sx("s.len", v.S))
	case KArray:
		return intVal(i64(v.T.Underlying().(*types.Array).Len()))
	case KRef:
		if _, ok := v.T.Underlying().(*types.Map); ok {
			return intVal(vc.mapLen(st, v))
		}
		if _, ok := v.T.Underlying().(*types.Chan); ok {
			return intVal(vc.sc.fresh("chanlen", sortIdx))
		}
	case KPtr:
		if at, ok := v.T.Underlying().(*types.Pointer).Elem().Underlying().(*types.Array); ok {
			return intVal(i64(at.Len()))
		}
	}
	return bad(types.Typ[types.Int], "len of "+v.String())
}

func (vc *VC) capOf(st *State, v Val) Val {
	if v.K == KSlice {
		return intVal(v.Sl[3])
	}
	return vc.lenOf(st, v)
}

func elemTypeOf(t types.Type) types.Type {
	switch u := t.Underlying().(type) {
	case *types.Slice:
		return u.Elem()
	case *types.Array:
		return u.Elem()
	case *types.Pointer:
		return elemTypeOf(u.Elem())
	case *types.Basic:
		return types.Typ[types.Byte]
	}
	return nil
}

// indexLoc returns the location of s[i] and emits the bounds obligation.
func (vc *VC) indexLoc(st *State, s Val, i Val, pos token.Position, what string) *Loc {
	idx := toIdx(i)
	switch s.K {
	case KSlice:
		vc.oblige(st, "nopanic", "nopanic.index:"+what, "index out of range", pos, and(sx("bvsle", i64(0), idx), sx("bvslt", idx, s.Sl[2])))
		return &Loc{Kind: locElem, Ref: s.Sl[0], Idx: elemIdx(s.Sl[1], idx), Base: s.T.Underlying().(*types.Slice).Elem()}
	case KPtr:
		at, ok := s.L.typeAt().Underlying().(*types.Array)
		if !ok {
			return nil
		}
		vc.oblige(st, "nopanic", "nopanic.index:"+what, "index out of range", pos, and(sx("bvsle", i64(0), idx), sx("bvslt", idx, i64(at.Len()))))
		if s.L.Kind == locArr {
			return &Loc{Kind: locElem, Ref: s.L.Ref, Idx: idx, Base: at.Elem()}
		}
		return s.L.extend(pathElem{Field: -1, Idx: idx})
	}
	return nil
}

func (vc *VC) sliceOp(st *State, x Val, lo, hi, max *Val, rt types.Type, pos token.Position, what string) Val {
	z := i64(0)
	var l, h, m string
	if lo != nil {
		l = toIdx(*lo)
	} else {
		l = z
	}
	switch x.K {
	case KSlice:
		if hi != nil {
			h = toIdx(*hi)
		} else {
			h = x.Sl[2]
		}
		if max != nil {
			m = toIdx(*max)
		} else {
			m = x.Sl[3]
		}
		goal := and(sx("bvsle", z, l), sx("bvsle", l, h), sx("bvsle", h, m), sx("bvsle", m, x.Sl[3]))
		vc.oblige(st, "nopanic", "nopanic.slice:"+what, "slice bounds out of range", pos, goal)
		return Val{K: KSlice, T: rt, Sl: [4]string{x.Sl[0], bvAdd(x.Sl[1], l), bvSub(h, l), bvSub(m, l)}}
	case KScalar: // string
		vc.declStr()
		ln := sx("s.len", x.S)
		if hi != nil {
			h = toIdx(*hi)
		} else {
			h = ln
		}
		vc.oblige(st, "nopanic", "nopanic.slice:"+what, "slice bounds out of range", pos, and(sx("bvsle", z, l), sx("bvsle", l, h), sx("bvsle", h, ln)))
		vc.sc.declareFun("s.sub", []string{sortStr, sortIdx, sortIdx}, sortStr)
		r := sx("s.sub", x.S, l, h)
		rn := vc.sc.define("sub", sortStr, r)
		vc.sc.assert(implies(and(sx("bvsle", z, l), sx("bvsle", l, h), sx("bvsle", h, ln)), eq(sx("s.len", rn), bvSub(h, l))))
		i := "i!q"
		vc.sc.assert(fmt.Sprintf("(forall ((%s %s)) (! (=> (and (bvsle %s %s) (bvslt %s %s)) (= (s.at %s %s) (s.at %s (bvadd %s %s)))) :pattern ((s.at %s %s))))",
			i, sortIdx, z, i, i, bvSub(h, l), rn, i, x.S, l, i, rn, i))
		return Val{K: KScalar, T: rt, S: rn}
	case KPtr:
		at, ok := x.L.typeAt().Underlying().(*types.Array)
		if !ok || x.L.Kind != locArr {
			return bad(rt, "slice of non-heap array")
		}
		n := i64(at.Len())
		if hi != nil {
			h = toIdx(*hi)
		} else {
			h = n
		}
		if max != nil {
			m = toIdx(*max)
		} else {
			m = n
		}
		vc.oblige(st, "nopanic", "nopanic.slice:"+what, "slice bounds out of range", pos, and(sx("bvsle", z, l), sx("bvsle", l, h), sx("bvsle", h, m), sx("bvsle", m, n)))
		return Val{K: KSlice, T: rt, Sl: [4]string{x.L.Ref, l, bvSub(h, l), bvSub(m, l)}}
	}
	return bad(rt, "slice of "+x.String())
}

func isSmallLit(t string, max int64) (int64, bool) {
	if v, _, ok := bvLit(t); ok && v.IsInt64() && v.Int64() <= max {
		return v.Int64(), true
	}
	return 0, false
}

// appendOp models append(s, t...) for slices; t may be a string (append([]byte, string...)).
func (vc *VC) appendOp(st *State, s, t Val, pos token.Position) Val {
	if s.K != KSlice {
		return bad(s.T, "append to non-slice")
	}
	et := s.T.Underlying().(*types.Slice).Elem()
	els := leavesOf(et)
	var tl string
	tIsStr := t.K == KScalar
	if tIsStr {
		vc.declStr()
		tl = sx("s.len", t.S)
	} else if t.K == KSlice {
		tl = t.Sl[2]
	} else {
		return bad(s.T, "append of "+t.String())
	}
	a, o, l, c := s.Sl[0], s.Sl[1], s.Sl[2], s.Sl[3]
	n := vc.sc.define("n", sortIdx, bvAdd(l, tl))
	inplace := vc.sc.define("inplace", sortBool, sx("bvsle", n, c))
	r := vc.alloc(st, "arr")
	ncap := vc.sc.fresh("cap", sortIdx)
	vc.sc.assert(and(sx("bvsle", n, ncap), sx("bvsle", ncap, bvConst(new(big.Int).Lsh(big.NewInt(1), 41), 64))))
	tgt := vc.sc.define("tgt", sortRef, ite(inplace, a, r))
	ln, lok := isSmallLit(l, 32)
	tn, tok := isSmallLit(tl, 32)
	for _, lf := range els {
		if lf.bad {
			return bad(s.T, "append: unsupported element leaf")
		}
		hn := elemHeap(et, lf.path)
		inner := arraySort(sortIdx, lf.sort)
		hs := arraySort(sortRef, inner)
		h := vc.heapGet(st, hn, hs)
		litLeaf := litLeafTerms(t, lf)
		src := func(k string) string { // k-th appended element
			if tIsStr {
				return sx("s.at", t.S, k)
			}
			if litLeaf != nil {
				if kk, ok := isSmallLit(k, 15); ok && int(kk) < len(litLeaf) {
					return litLeaf[kk]
				}
				r := litLeaf[len(litLeaf)-1]
				for j := len(litLeaf) - 2; j >= 0; j-- {
					r = ite(eq(k, i64(int64(j))), litLeaf[j], r)
				}
				return r
			}
			return sel(sel(h, t.Sl[0]), elemIdx(t.Sl[1], k))
		}
		var na string
		if tok && lok {
			// fully explicit: both lengths are small constants
			ip := sel(h, a)
			for k := int64(0); k < tn; k++ {
				ip = store(ip, elemIdx(o, bvAdd(l, i64(k))), src(i64(k)))
			}
			fr := vc.sc.fresh("newarr", inner)
			var eqs []string
			for k := int64(0); k < ln; k++ {
				eqs = append(eqs, eq(sel(fr, i64(k)), sel(sel(h, a), elemIdx(o, i64(k)))))
			}
			for k := int64(0); k < tn; k++ {
				eqs = append(eqs, eq(sel(fr, i64(ln+k)), src(i64(k))))
			}
			vc.sc.assert(and(eqs...))
			na = ite(inplace, ip, fr)
		} else {
			na = vc.sc.fresh("apparr", inner)
			i := "i!q"
			noff := ite(inplace, o, i64(0))
			k := bvSub(i, noff)
			// uniform window: the first n elements of the result are s followed by t
			win := implies(and(sx("bvsle", i64(0), k), sx("bvslt", k, n)),
				eq(sel(na, i), ite(sx("bvslt", k, l), sel(sel(h, a), elemIdx(o, k)), src(bvSub(k, l)))))
			// in place: everything outside the appended window keeps its old content
			fr := implies(and(inplace, not(and(sx("bvsle", bvAdd(o, l), i), sx("bvslt", i, bvAdd(o, n))))), eq(sel(na, i), sel(sel(h, a), i)))
			vc.sc.assert(fmt.Sprintf("(forall ((%s %s)) (! (and %s %s) :pattern ((select %s %s))))", i, sortIdx, win, fr, na, i))
		}
		vc.heapSet(st, hn, hs, vc.sc.define("h", hs, store(h, tgt, na)))
	}
	return Val{K: KSlice, T: s.T, Sl: [4]string{tgt, ite(inplace, o, i64(0)), n, ite(inplace, c, ncap)}}
}

// copyOp models copy(dst, src); returns the number of elements copied.
func (vc *VC) copyOp(st *State, d, s Val, pos token.Position) Val {
	if d.K != KSlice {
		return bad(types.Typ[types.Int], "copy to non-slice")
	}
	et := d.T.Underlying().(*types.Slice).Elem()
	els := leavesOf(et)
	var sl string
	sIsStr := s.K == KScalar
	if sIsStr {
		vc.declStr()
		sl = sx("s.len", s.S)
	} else if s.K == KSlice {
		sl = s.Sl[2]
	} else {
		return bad(types.Typ[types.Int], "copy from "+s.String())
	}
	n := vc.sc.define("ncopy", sortIdx, ite(sx("bvsle", d.Sl[2], sl), d.Sl[2], sl))
	// if one of the lengths is a small literal the copy is written out explicitly:
	// element k is copied iff k < n
	nk, nok := isSmallLit(n, 32)
	guarded := false
	if !nok {
		a, aok := isSmallLit(d.Sl[2], 32)
		b, bok := isSmallLit(sl, 32)
		switch {
		case aok && bok:
			nk, nok = a, true
			if b < a {
				nk = b
			}
		case aok:
			nk, nok, guarded = a, true, true
		case bok:
			nk, nok, guarded = b, true, true
		}
	}
	for _, lf := range els {
		if lf.bad {
			vc.unsupported("copy: unsupported element leaf")
			continue
		}
		hn := elemHeap(et, lf.path)
		inner := arraySort(sortIdx, lf.sort)
		hs := arraySort(sortRef, inner)
		h := vc.heapGet(st, hn, hs)
		src := func(k string) string {
			if sIsStr {
				return sx("s.at", s.S, k)
			}
			return sel(sel(h, s.Sl[0]), elemIdx(s.Sl[1], k))
		}
		var na string
		if nok {
			na = sel(h, d.Sl[0])
			for k := int64(0); k < nk; k++ {
				at := elemIdx(d.Sl[1], i64(k))
				v := src(i64(k))
				if guarded {
					v = ite(sx("bvslt", i64(k), n), v, sel(sel(h, d.Sl[0]), at))
				}
				na = store(na, at, v)
			}
		} else {
			na = vc.sc.fresh("cparr", inner)
			i := "i!q"
			body := eq(sel(na, i), ite(and(sx("bvsle", d.Sl[1], i), sx("bvslt", i, bvAdd(d.Sl[1], n))), src(bvSub(i, d.Sl[1])), sel(sel(h, d.Sl[0]), i)))
			vc.sc.assert(fmt.Sprintf("(forall ((%s %s)) (! %s :pattern ((select %s %s))))", i, sortIdx, body, na, i))
		}
		vc.heapSet(st, hn, hs, vc.sc.define("h", hs, store(h, d.Sl[0], na)))
	}
	return intVal(n)
}

func (vc *VC) makeSlice(st *State, t types.Type, ln, cp Val, pos token.Position) Val {
	l := toIdx(ln)
	c := toIdx(cp)
	lim := bvConst(new(big.Int).Lsh(big.NewInt(1), 40), 64)
	vc.oblige(st, "nopanic", "nopanic.makeslice", "makeslice: len/cap out of range", pos, and(sx("bvsle", i64(0), l), sx("bvsle", l, c)))
	// allocation size beyond 2^40 elements is treated as out of scope (memory exhaustion)
	vc.assume(st, sx("bvsle", c, lim))
	et := t.Underlying().(*types.Slice).Elem()
	r := vc.alloc(st, "arr")
	for _, lf := range leavesOf(et) {
		if lf.bad {
			continue
		}
		hn := elemHeap(et, lf.path)
		inner := arraySort(sortIdx, lf.sort)
		hs := arraySort(sortRef, inner)
		h := vc.heapGet(st, hn, hs)
		zt, _ := flatten(vc.zero(lf.T))
		_ = zt
		zl := vc.zeroLeaf(lf)
		vc.heapSet(st, hn, hs, vc.sc.define("h", hs, store(h, r, vc.sc.constArray(inner, zl))))
	}
	return Val{K: KSlice, T: t, Sl: [4]string{r, i64(0), l, c}}
}

func (vc *VC) zeroLeaf(lf leaf) string {
	switch {
	case lf.sort == sortBool:
		return "false"
	case lf.sort == sortRef:
		return "0"
	case lf.sort == sortStr:
		return vc.strLit("")
	case lf.sort == sortF64:
		vc.sc.declare("flt.zero", sortF64)
		return "flt.zero"
	case strings.HasPrefix(lf.sort, "(_ BitVec "):
		var w int
		fmt.Sscanf(lf.sort, "(_ BitVec %d)", &w)
		return bvInt(0, w)
	case strings.HasPrefix(lf.sort, "(Array "):
		// array leaf: const array of element zero
		at := lf.T.Underlying().(*types.Array)
		el := leavesOf(at.Elem())[0]
		return vc.sc.constArray(lf.sort, vc.zeroLeaf(el))
	}
	return "0"
}

// appendOwned models append(s, t...) when s is the only reference to a locally allocated
// array: growing in place or reallocating is then unobservable, and the result is modelled
// as a fresh array holding s followed by t. The result is again exclusively owned.
func (vc *VC) appendOwned(st *State, s, t Val, pos token.Position) Val {
	et := s.T.Underlying().(*types.Slice).Elem()
	els := leavesOf(et)
	var tl string
	tIsStr := t.K == KScalar
	if tIsStr {
		vc.declStr()
		tl = sx("s.len", t.S)
	} else if t.K == KSlice {
		tl = t.Sl[2]
	} else {
		return bad(s.T, "append of "+t.String())
	}
	a, o, l := s.Sl[0], s.Sl[1], s.Sl[2]
	n := vc.sc.define("n", sortIdx, bvAdd(l, tl))
	r := vc.alloc(st, "arr")
	ncap := vc.sc.fresh("cap", sortIdx)
	vc.sc.assert(and(sx("bvsle", n, ncap), sx("bvsle", ncap, bvConst(new(big.Int).Lsh(big.NewInt(1), 41), 64))))
	ln, lok := isSmallLit(l, 32)
	tn, tok := isSmallLit(tl, 32)
	for _, lf := range els {
		if lf.bad {
			return bad(s.T, "append: unsupported element leaf")
		}
		hn := elemHeap(et, lf.path)
		inner := arraySort(sortIdx, lf.sort)
		hs := arraySort(sortRef, inner)
		h := vc.heapGet(st, hn, hs)
		litLeaf := litLeafTerms(t, lf)
		src := func(k string) string {
			if tIsStr {
				return sx("s.at", t.S, k)
			}
			if litLeaf != nil {
				if kk, ok := isSmallLit(k, 15); ok && int(kk) < len(litLeaf) {
					return litLeaf[kk]
				}
				r := litLeaf[len(litLeaf)-1]
				for j := len(litLeaf) - 2; j >= 0; j-- {
					r = ite(eq(k, i64(int64(j))), litLeaf[j], r)
				}
				return r
			}
			return sel(sel(h, t.Sl[0]), elemIdx(t.Sl[1], k))
		}
		na := vc.sc.fresh("apparr", inner)
		i := "i!q"
		var parts []string
		if lok {
			for k := int64(0); k < ln; k++ {
				vc.sc.assert(eq(sel(na, i64(k)), sel(sel(h, a), elemIdx(o, i64(k)))))
			}
		} else if mx, ok := vc.sc.maxSmallLit(l, 0); ok && mx <= 8 {
			// length is one of a few small literals: write the copy out, guarded by k < len
			for k := int64(0); k < mx; k++ {
				vc.sc.assert(implies(sx("bvslt", i64(k), l), eq(sel(na, i64(k)), sel(sel(h, a), elemIdx(o, i64(k))))))
			}
		} else {
			parts = append(parts, implies(and(sx("bvsle", i64(0), i), sx("bvslt", i, l)), eq(sel(na, i), sel(sel(h, a), elemIdx(o, i)))))
		}
		if tok {
			for k := int64(0); k < tn; k++ {
				vc.sc.assert(eq(sel(na, bvAdd(l, i64(k))), src(i64(k))))
			}
		} else {
			parts = append(parts, implies(and(sx("bvsle", l, i), sx("bvslt", i, n)), eq(sel(na, i), src(bvSub(i, l)))))
		}
		if len(parts) > 0 {
			vc.sc.assert(fmt.Sprintf("(forall ((%s %s)) (! %s :pattern ((select %s %s))))", i, sortIdx, and(parts...), na, i))
		}
		vc.heapSet(st, hn, hs, vc.sc.define("h", hs, store(h, r, na)))
	}
	return Val{K: KSlice, T: s.T, Sl: [4]string{r, i64(0), n, ncap}, Own: true}
}

// litLeafTerms: for a literal variadic operand, the terms of leaf lf of each element.
func litLeafTerms(t Val, lf leaf) []string {
	if t.Lit == nil {
		return nil
	}
	et := t.T.Underlying().(*types.Slice).Elem()
	ls := leavesOf(et)
	idx := -1
	for i, l := range ls {
		if l.path == lf.path {
			idx = i
		}
	}
	if idx < 0 {
		return nil
	}
	out := make([]string, len(t.Lit))
	for i, e := range t.Lit {
		f, ok := flatten(e)
		if !ok || len(f) != len(ls) {
			return nil
		}
		out[i] = f[idx]
	}
	return out
}
