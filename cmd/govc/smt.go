package main

// SMT-LIB term construction helpers. Terms are plain strings.

import (
	"fmt"
	"math/big"
	"strings"
)

const (
	sortBool = "Bool"
	sortRef  = "Int" // references (object ids, array ids, map ids); nil == 0
	sortStr  = "Str" // uninterpreted sort for Go strings
	sortF64  = "Flt" // uninterpreted sort for floats
	sortIdx  = "(_ BitVec 64)"
)

func bvSort(w int) string { return fmt.Sprintf("(_ BitVec %d)", w) }

func arraySort(idx, elem string) string { return fmt.Sprintf("(Array %s %s)", idx, elem) }

func bvConst(v *big.Int, w int) string {
	m := new(big.Int).Lsh(big.NewInt(1), uint(w))
	x := new(big.Int).Mod(v, m)
	if x.Sign() < 0 {
		x.Add(x, m)
	}
	return fmt.Sprintf("(_ bv%s %d)", x.String(), w)
}

func bvInt(v int64, w int) string { return bvConst(big.NewInt(v), w) }

func sx(op string, args ...string) string {
	return "(" + op + " " + strings.Join(args, " ") + ")"
}

func and(args ...string) string {
	var xs []string
	for _, a := range args {
		if a == "true" || a == "" {
			continue
		}
		if a == "false" {
			return "false"
		}
		xs = append(xs, a)
	}
	switch len(xs) {
	case 0:
		return "true"
	case 1:
		return xs[0]
	}
	return sx("and", xs...)
}

func or(args ...string) string {
	var xs []string
	for _, a := range args {
		if a == "false" || a == "" {
			continue
		}
		if a == "true" {
			return "true"
		}
		xs = append(xs, a)
	}
	switch len(xs) {
	case 0:
		return "false"
	case 1:
		return xs[0]
	}
	return sx("or", xs...)
}

func not(a string) string {
	switch a {
	case "true":
		return "false"
	case "false":
		return "true"
	}
	if strings.HasPrefix(a, "(not ") && balanced(a[5:len(a)-1]) {
		return a[5 : len(a)-1]
	}
	return sx("not", a)
}

func balanced(s string) bool {
	d := 0
	for i := 0; i < len(s); i++ {
		switch s[i] {
		case '(':
			d++
		case ')':
			d--
			if d < 0 {
				return false
			}
		case '|':
			j := strings.IndexByte(s[i+1:], '|')
			if j < 0 {
				return false
			}
			i += j + 1
		}
	}
	return d == 0
}

func implies(a, b string) string {
	if a == "true" {
		return b
	}
	if a == "false" || b == "true" {
		return "true"
	}
	return sx("=>", a, b)
}

func ite(c, a, b string) string {
	if c == "true" {
		return a
	}
	if c == "false" {
		return b
	}
	if a == b {
		return a
	}
	return sx("ite", c, a, b)
}

func eq(a, b string) string {
	if a == b {
		return "true"
	}
	return sx("=", a, b)
}

// curDefs: definitions of the script currently being generated (VC generation is sequential).
var curDefs map[string]string
var curScript *Script

const idxAxiom = "(assert (forall ((o!q (_ BitVec 64)) (k!q (_ BitVec 64))) (! (= (idx o!q k!q) (bvadd o!q k!q)) :pattern ((idx o!q k!q)))))"

// mkIdx builds (idx off k); for ground terms the defining equation is asserted at once, so that
// quantifier-free problems do not depend on instantiating the idx axiom.
func mkIdx(off, k string) string {
	t := sx("idx", off, k)
	if curScript != nil && !strings.Contains(t, "!q") {
		if !curScript.idxSeen[t] {
			curScript.idxSeen[t] = true
			curScript.assert(eq(t, sx("bvadd", off, k)))
		}
	}
	return t
}

func isAllocConst(t string) bool {
	for _, p := range []string{"obj!", "arr!", "map!", "box!", "err!", "txn!", "clo!", "chan!"} {
		if strings.HasPrefix(t, p) {
			return true
		}
	}
	return false
}

// provablyDistinctRefs: two reference terms that cannot be equal by construction
// (different allocation sites; an allocation vs. a parameter, which existed before it).
func provablyDistinctRefs(a, b string) bool {
	if a == b {
		return false
	}
	if isAllocConst(a) && (isAllocConst(b) || strings.HasPrefix(b, "p.")) {
		return true
	}
	if isAllocConst(b) && strings.HasPrefix(a, "p.") {
		return true
	}
	return false
}

// sel builds (select a i), looking through stores whose index is syntactically equal to i or
// provably different from it.
func sel(a, i string) string {
	for depth := 0; depth < 64; depth++ {
		d, ok := curDefs[a]
		if !ok {
			d = a
		}
		if !strings.HasPrefix(d, "(store ") {
			break
		}
		_, args, ok := splitArgs(d)
		if !ok || len(args) != 3 {
			break
		}
		if args[1] == i {
			return args[2]
		}
		if provablyDistinctRefs(args[1], i) {
			a = args[0]
			continue
		}
		break
	}
	return sx("select", a, i)
}
func store(a, i, v string) string { return sx("store", a, i, v) }

// quote makes an arbitrary name a legal SMT symbol.
func quote(name string) string {
	ok := true
	for _, c := range name {
		if !(c >= 'a' && c <= 'z' || c >= 'A' && c <= 'Z' || c >= '0' && c <= '9' || c == '_' || c == '.' || c == '$' || c == '!' || c == '#') {
			ok = false
			break
		}
	}
	if ok && name != "" && !(name[0] >= '0' && name[0] <= '9') {
		return name
	}
	return "|" + strings.NewReplacer("|", "!", "\\", "!").Replace(name) + "|"
}

// Script accumulates declarations and global assertions (defining equations,
// axioms of fresh symbols).  It is append-only; an obligation is checked
// against the prefix that existed when the obligation was generated.
type Script struct {
	lines    []string
	declared map[string]string // symbol -> sort (for consts) or signature
	counter  int
	sorts    map[string]bool
	defs     map[string]string // defined constant -> its definition
	idxSeen  map[string]bool
}

func newScript() *Script {
	s := &Script{declared: map[string]string{}, sorts: map[string]bool{}, defs: map[string]string{}, idxSeen: map[string]bool{}}
	curDefs = s.defs
	curScript = s
	s.lines = append(s.lines,
		"(declare-sort Str 0)",
		"(declare-sort Flt 0)",
		// element addresses are written (idx off k) = off + k: an uninterpreted handle that
		// E-matching can see through index arithmetic
		"(declare-fun idx ((_ BitVec 64) (_ BitVec 64)) (_ BitVec 64))",
		idxAxiom,
	)
	return s
}

func (s *Script) fresh(prefix, sort string) string {
	s.counter++
	name := quote(fmt.Sprintf("%s!%d", prefix, s.counter))
	s.declare(name, sort)
	return name
}

func (s *Script) declare(name, sort string) {
	if old, ok := s.declared[name]; ok {
		if old != sort {
			panic(fmt.Sprintf("redeclaration of %s: %s vs %s", name, old, sort))
		}
		return
	}
	s.declared[name] = sort
	s.lines = append(s.lines, fmt.Sprintf("(declare-const %s %s)", name, sort))
}

func (s *Script) declareFun(name string, args []string, ret string) {
	sig := "(" + strings.Join(args, " ") + ") " + ret
	if old, ok := s.declared[name]; ok {
		if old != sig {
			panic(fmt.Sprintf("redeclaration of fun %s: %s vs %s", name, old, sig))
		}
		return
	}
	s.declared[name] = sig
	s.lines = append(s.lines, fmt.Sprintf("(declare-fun %s %s)", name, sig))
}

// sanitizePatterns removes :pattern annotations whose terms contain boolean structure (ite, and,
// or, not), which solvers reject or ignore with warnings; the quantifier then gets automatic triggers.
func sanitizePatterns(t string) string {
	if !strings.Contains(t, ":pattern") {
		return t
	}
	var out strings.Builder
	i := 0
	for i < len(t) {
		j := strings.Index(t[i:], "(! ")
		if j < 0 {
			out.WriteString(t[i:])
			break
		}
		j += i
		// find the matching close paren of "(! ... )"
		depth := 0
		end := -1
		inBar := false
		for k := j; k < len(t); k++ {
			c := t[k]
			if inBar {
				if c == '|' {
					inBar = false
				}
				continue
			}
			switch c {
			case '|':
				inBar = true
			case '(':
				depth++
			case ')':
				depth--
				if depth == 0 {
					end = k
				}
			}
			if end >= 0 {
				break
			}
		}
		if end < 0 {
			out.WriteString(t[i:])
			break
		}
		inner := t[j+3 : end] // BODY :pattern (...)
		pi := strings.LastIndex(inner, " :pattern ")
		if pi < 0 {
			out.WriteString(t[i : end+1])
			i = end + 1
			continue
		}
		body := sanitizePatterns(inner[:pi])
		pat := inner[pi+len(" :pattern "):]
		bad := strings.Contains(pat, "(ite ") || strings.Contains(pat, "(and ") || strings.Contains(pat, "(or ") || strings.Contains(pat, "(not ") || strings.Contains(pat, "(=> ")
		out.WriteString(t[i:j])
		if bad {
			out.WriteString(body)
		} else {
			out.WriteString("(! " + body + " :pattern " + pat + ")")
		}
		i = end + 1
	}
	return out.String()
}

func (s *Script) assert(t string) {
	if t == "true" {
		return
	}
	t = sanitizePatterns(t)
	s.lines = append(s.lines, "(assert "+t+")")
}

// define introduces a fresh constant equal to term t.
func (s *Script) define(prefix, sort, t string) string {
	// do not rename atoms
	if !strings.ContainsAny(t, " (") {
		return t
	}
	n := s.fresh(prefix, sort)
	s.assert(eq(n, t))
	if s.defs == nil {
		s.defs = map[string]string{}
	}
	s.defs[n] = t
	curDefs = s.defs
	return n
}

// maxSmallLit: an upper bound of a term built from small literals and ite, looking through definitions.
func (s *Script) maxSmallLit(t string, depth int) (int64, bool) {
	if v, ok := isSmallLit(t, 64); ok {
		return v, true
	}
	if depth > 8 {
		return 0, false
	}
	if d, ok := s.defs[t]; ok {
		return s.maxSmallLit(d, depth+1)
	}
	if strings.HasPrefix(t, "(ite ") {
		_, args, ok := splitArgs(t)
		if ok && len(args) == 3 {
			a, ok1 := s.maxSmallLit(args[1], depth+1)
			b, ok2 := s.maxSmallLit(args[2], depth+1)
			if ok1 && ok2 {
				if b > a {
					a = b
				}
				return a, true
			}
		}
	}
	return 0, false
}

func (s *Script) mark() int { return len(s.lines) }

// constArray returns an array whose every element is dflt. Solvers accept (as const ...) only
// for value defaults; for other defaults a fresh array with a quantified definition is used.
func (s *Script) constArray(arrSort, dflt string) string {
	isValue := dflt == "true" || dflt == "false" || strings.HasPrefix(dflt, "(_ bv") || strings.HasPrefix(dflt, "((as const") ||
		(len(dflt) > 0 && (dflt[0] >= '0' && dflt[0] <= '9'))
	if isValue {
		return fmt.Sprintf("((as const %s) %s)", arrSort, dflt)
	}
	a := s.fresh("constarr", arrSort)
	// index sort is the first component of the array sort
	_, args, _ := splitArgs(arrSort)
	idx := sortIdx
	if len(args) == 2 {
		idx = args[0]
	}
	s.assert(fmt.Sprintf("(forall ((i!q %s)) (! (= (select %s i!q) %s) :pattern ((select %s i!q))))", idx, a, dflt, a))
	return a
}
