package main

// Symbolic execution of go/ssa functions (naive form) into verification conditions.

import (
	"fmt"
	"go/token"
	"go/types"
	"sort"
	"strings"

	"golang.org/x/tools/go/ssa"
)

const maxInlineDepth = 6

type retRec struct {
	st   *State
	vals []Val
	pos  token.Pos
}

type Frame struct {
	fn      *ssa.Function
	regs    map[ssa.Value]Val
	cellOf  map[*ssa.Alloc]*Cell
	escapes map[*ssa.Alloc]bool
	entry   *State
	params  []Val
	free    []Val
	rets    []retRec
	depth   int
	defers  []*ssa.Defer
	con     *Contract
	loops   map[*ssa.BasicBlock]*loopInfo
	top     bool
	env0    map[string]Val
}

type loopInfo struct {
	headLocks map[string]int // lockset when the loop head was entered
	header    *ssa.BasicBlock
	ordinal   int
	body      map[*ssa.BasicBlock]bool
	backs     []*ssa.BasicBlock
}

func (vc *VC) pos(p token.Pos) token.Position {
	return vc.eng.fset.Position(p)
}

func instrPos(fn *ssa.Function, in ssa.Instruction) token.Pos {
	if p := in.Pos(); p.IsValid() {
		return p
	}
	// fall back: nearest earlier instruction with a position in the block
	b := in.Block()
	last := token.NoPos
	for _, x := range b.Instrs {
		if x == in {
			break
		}
		if p := x.Pos(); p.IsValid() {
			last = p
		}
		if d, ok := x.(*ssa.DebugRef); ok && d.Expr != nil {
			last = d.Expr.Pos()
		}
	}
	if last.IsValid() {
		return last
	}
	return fn.Pos()
}

// srcText returns a normalised snippet of source for naming obligations.
func (vc *VC) srcText(fn *ssa.Function, in ssa.Instruction) string {
	p := vc.pos(instrPos(fn, in))
	return vc.eng.lineText(p)
}

// ---------- escape analysis of Allocs ----------

func allocEscapes(a *ssa.Alloc) bool {
	if _, isArr := a.Type().Underlying().(*types.Pointer).Elem().Underlying().(*types.Array); isArr {
		// arrays that get sliced need heap storage
		if refsEscape(a, true) {
			return true
		}
		return false
	}
	return refsEscape(a, false)
}

func refsEscape(v ssa.Value, isArr bool) bool {
	refs := v.Referrers()
	if refs == nil {
		return true
	}
	for _, r := range *refs {
		switch r := r.(type) {
		case *ssa.Store:
			if r.Val == v {
				return true
			}
		case *ssa.UnOp:
			if r.Op != token.MUL {
				return true
			}
		case *ssa.DebugRef:
		case *ssa.FieldAddr:
			if refsEscape(r, false) {
				return true
			}
		case *ssa.IndexAddr:
			if refsEscape(r, false) {
				return true
			}
		case *ssa.MakeClosure:
			// captured by a closure that only reads the variable (never assigns it, never passes its
			// address on): the variable keeps behaving like a local of this function
			if isArr {
				return true
			}
			cf, _ := r.Fn.(*ssa.Function)
			if cf == nil {
				return true
			}
			for i, b := range r.Bindings {
				if b == v && (i >= len(cf.FreeVars) || !freeVarReadOnly(cf.FreeVars[i], 0)) {
					return true
				}
			}
		default:
			return true
		}
	}
	return false
}

func freeVarReadOnly(fv *ssa.FreeVar, depth int) bool {
	refs := fv.Referrers()
	if refs == nil || depth > 3 {
		return false
	}
	for _, r := range *refs {
		switch r := r.(type) {
		case *ssa.UnOp:
			if r.Op != token.MUL {
				return false
			}
		case *ssa.DebugRef:
		case *ssa.MakeClosure:
			cf, _ := r.Fn.(*ssa.Function)
			if cf == nil {
				return false
			}
			for i, b := range r.Bindings {
				if b == fv && (i >= len(cf.FreeVars) || !freeVarReadOnly(cf.FreeVars[i], depth+1)) {
					return false
				}
			}
		default:
			return false
		}
	}
	return true
}

// ---------- loops ----------

func findLoops(fn *ssa.Function) map[*ssa.BasicBlock]*loopInfo {
	loops := map[*ssa.BasicBlock]*loopInfo{}
	for _, b := range fn.Blocks {
		for _, s := range b.Succs {
			if s.Dominates(b) {
				li := loops[s]
				if li == nil {
					li = &loopInfo{header: s, body: map[*ssa.BasicBlock]bool{s: true}}
					loops[s] = li
				}
				li.backs = append(li.backs, b)
				// natural loop body
				stack := []*ssa.BasicBlock{b}
				for len(stack) > 0 {
					x := stack[len(stack)-1]
					stack = stack[:len(stack)-1]
					if li.body[x] {
						continue
					}
					li.body[x] = true
					stack = append(stack, x.Preds...)
				}
			}
		}
	}
	var hs []*ssa.BasicBlock
	for h := range loops {
		hs = append(hs, h)
	}
	sort.Slice(hs, func(i, j int) bool { return hs[i].Index < hs[j].Index })
	for i, h := range hs {
		loops[h].ordinal = i + 1
	}
	return loops
}

func isBackEdge(from, to *ssa.BasicBlock) bool { return to.Dominates(from) }

func rpo(fn *ssa.Function) []*ssa.BasicBlock {
	seen := map[*ssa.BasicBlock]bool{}
	var post []*ssa.BasicBlock
	var dfs func(b *ssa.BasicBlock)
	dfs = func(b *ssa.BasicBlock) {
		seen[b] = true
		for _, s := range b.Succs {
			if isBackEdge(b, s) || seen[s] {
				continue
			}
			dfs(s)
		}
		post = append(post, b)
	}
	dfs(fn.Blocks[0])
	for i, j := 0, len(post)-1; i < j; i, j = i+1, j-1 {
		post[i], post[j] = post[j], post[i]
	}
	return post
}

// ---------- function execution ----------

type edgeState struct {
	pred *ssa.BasicBlock
	st   *State
}

func (vc *VC) execFunc(fn *ssa.Function, args []Val, free []Val, st *State, depth int, con *Contract, top bool) ([]Val, *State) {
	fr := &Frame{fn: fn, regs: map[ssa.Value]Val{}, cellOf: map[*ssa.Alloc]*Cell{}, escapes: map[*ssa.Alloc]bool{},
		params: args, free: free, depth: depth, con: con, top: top}
	fr.entry = st.clone()
	fr.loops = findLoops(fn)
	for i, p := range fn.Params {
		fr.regs[p] = args[i]
	}
	for i, fv := range fn.FreeVars {
		if i < len(free) {
			fr.regs[fv] = free[i]
		} else {
			fr.regs[fv] = bad(fv.Type(), "unbound free variable")
		}
	}
	fr.env0 = map[string]Val{}
	for i, p := range fn.Params {
		fr.env0[p.Name()] = args[i]
	}
	in := map[*ssa.BasicBlock][]edgeState{}
	order := rpo(fn)
	for _, b := range order {
		var cur *State
		if b == fn.Blocks[0] {
			cur = st
		} else {
			es := in[b]
			if len(es) == 0 {
				continue
			}
			var sts []*State
			for _, e := range es {
				sts = append(sts, e.st)
			}
			cur = vc.mergeStates(sts)
		}
		if li := fr.loops[b]; li != nil {
			cur = vc.loopHead(fr, li, cur, in[b])
			if cur == nil {
				continue
			}
		}
		vc.execBlock(fr, b, cur, in)
	}
	if top {
		vc.topRets = fr.rets
	}
	// merge returns
	if len(fr.rets) == 0 {
		dead := st.clone()
		dead.pc = "false"
		var zs []Val
		res := fn.Signature.Results()
		for i := 0; i < res.Len(); i++ {
			zs = append(zs, vc.zero(res.At(i).Type()))
		}
		return zs, dead
	}
	var sts []*State
	var pcs []string
	for _, r := range fr.rets {
		sts = append(sts, r.st)
		pcs = append(pcs, r.st.pc)
	}
	out := vc.mergeStates(sts)
	nres := fn.Signature.Results().Len()
	results := make([]Val, nres)
	for i := 0; i < nres; i++ {
		var vals []Val
		for _, r := range fr.rets {
			vals = append(vals, r.vals[i])
		}
		if len(vals) == 1 {
			results[i] = vals[0]
		} else {
			results[i] = vc.mergeVals(pcs, vals, fmt.Sprintf("ret%d", i))
		}
	}
	return results, out
}

func (vc *VC) loopHead(fr *Frame, li *loopInfo, cur *State, ins []edgeState) *State {
	fn := fr.fn
	pos := vc.pos(li.header.Instrs[0].Pos())
	if !pos.IsValid() {
		pos = vc.pos(instrPos(fn, li.header.Instrs[len(li.header.Instrs)-1]))
	}
	invs := vc.loopInvariants(fr, li)
	// 1. invariants hold on entry
	for i, inv := range invs {
		t, err := vc.evalInv(fr, cur, inv)
		if err != nil {
			vc.unsupported("invariant %q: %v", inv.src, err)
			t = "false"
		}
		vc.oblige(cur, "invariant", fmt.Sprintf("%s#inv.loop%d.entry.%d", funcKey(fn), li.ordinal, i+1), "loop invariant on entry: "+inv.src, pos, t)
	}
	// 2. havoc what the body may modify
	st := cur.clone()
	li.headLocks = map[string]int{}
	for l, m := range cur.locks {
		li.headLocks[l] = m
	}
	mods := vc.loopMods(fr, li)
	var modAllocs []*ssa.Alloc
	for a := range mods.allocs {
		if _, ok := fr.cellOf[a]; ok {
			modAllocs = append(modAllocs, a)
		}
	}
	sort.Slice(modAllocs, func(i, j int) bool { return fr.cellOf[modAllocs[i]].id < fr.cellOf[modAllocs[j]].id })
	for _, a := range modAllocs {
		if c, ok := fr.cellOf[a]; ok {
			if old, live := st.cells[c]; live {
				if _, rep := flatten(old); !rep && old.K != KBad {
					// pointer-valued cell that cannot be havocked symbolically
					st.cells[c] = bad(c.T, "loop-modified cell "+c.Name+" holds a non-representable value")
					continue
				}
				nv, _ := vc.symbolic(c.T, "lp."+c.Name)
				vc.assume(st, vc.wf(st, nv))
				if old.K == KSlice && old.Own && selfAppendOnly(a, li) {
					// x = append(x, ...) is the only way the loop changes x: it stays exclusively owned
					nv.Own = true
				}
				st.cells[c] = nv
			}
		}
	}
	if mods.all {
		vc.havocAllHeap(st)
	} else {
		var names []string
		for n := range mods.heap {
			names = append(names, n)
		}
		sort.Strings(names)
		for _, n := range names {
			srt := mods.heap[n]
			if !mods.whole[n] && len(mods.roots[n]) > 0 && len(mods.roots[n]) <= 6 {
				// every write in the loop goes through a few pointers/slices/maps computed before the
				// loop, or through objects allocated inside the loop: pre-existing objects other than
				// the former are unchanged
				var refs []string
				ok := true
				for _, r := range mods.roots[n] {
					var v Val
					if al, isAlloc := r.(*ssa.Alloc); isAlloc && li.body[al.Block()] {
						continue // object allocated inside the loop: fresh in every iteration
					}
					if al, isCell := r.(*ssa.Alloc); isCell {
						// a local variable that the loop does not assign
						c := fr.cellOf[al]
						cv, live := st.cells[c]
						if c == nil || !live || mods.allocs[al] {
							ok = false
							break
						}
						v = cv
					} else {
						if in, isInstr := r.(ssa.Instruction); isInstr && li.body[in.Block()] {
							// a value recomputed in every iteration from memory the loop does not write
							sv, stable := vc.stableValue(fr, st, mods, li, r, 0)
							if !stable {
								ok = false
								break
							}
							v = sv
							goto haveRoot
						}
						var has bool
						v, has = fr.regs[r]
						if !has {
							switch r.(type) {
							case *ssa.Parameter, *ssa.Global, *ssa.FreeVar:
								v = vc.value(fr, r)
							default:
								ok = false
							}
						}
						if !ok {
							break
						}
					}
				haveRoot:
					switch {
					case v.K == KRef && v.T != nil && isMapType(v.T):
						refs = append(refs, v.S)
					case v.K == KSlice:
						refs = append(refs, v.Sl[0])
					case v.K == KPtr && v.L != nil && (v.L.Kind == locObj || v.L.Kind == locArr) && len(v.L.Path) == 0:
						refs = append(refs, v.L.Ref)
					default:
						ok = false
					}
					if !ok {
						break
					}
				}
				if ok {
					h := vc.heapGet(st, n, srt)
					nh := vc.sc.fresh("lh", srt)
					conds := []string{sx("<", "r!q", st.next)}
					for _, ref := range refs {
						conds = append(conds, not(eq("r!q", ref)))
					}
					vc.sc.assert(fmt.Sprintf("(forall ((r!q Int)) (! (=> %s (= (select %s r!q) (select %s r!q))) :pattern ((select %s r!q))))", and(conds...), nh, h, nh))
					vc.heapSorts[n] = srt
					st.heap[n] = nh
					continue
				}
			}
			vc.heapSorts[n] = srt
			st.heap[n] = vc.sc.fresh("lh", srt)
		}
		nn := vc.sc.fresh("next", sortRef)
		vc.sc.assert(sx(">=", nn, st.next))
		st.next = nn
	}
	mods.ghost[fmt.Sprintf("visited%d", li.ordinal)] = true
	// ghost variables assigned by a ghostset anchored inside the loop body
	if fr.con != nil {
		for _, cl := range fr.con.Asserts {
			if !strings.HasPrefix(cl.Kind, "ghostset:") {
				continue
			}
			if vc.anchorInBlocks(cl.Match, li.body, 0) {
				mods.ghost[strings.TrimPrefix(cl.Kind, "ghostset:")] = true
			}
		}
	}
	var modGhosts []string
	for g := range mods.ghost {
		modGhosts = append(modGhosts, g)
	}
	sort.Strings(modGhosts)
	for _, g := range modGhosts {
		if old, ok := st.ghost[g]; ok {
			if old.K == KGhost {
				st.ghost[g] = Val{K: KGhost, GSort: old.GSort, S: vc.sc.fresh("lg."+g, old.GSort)}
				continue
			}
			nv, _ := vc.symbolic(old.T, "lg."+g)
			st.ghost[g] = nv
		}
	}
	// 3. assume invariants
	for _, inv := range invs {
		t, err := vc.evalInv(fr, st, inv)
		if err != nil {
			continue
		}
		vc.assume(st, t)
	}
	return st
}

type invariant struct {
	src  string
	expr *SExpr
	auto string // pre-built term builder for automatic invariants
	fn   func(st *State) string
}

func (vc *VC) evalInv(fr *Frame, st *State, inv invariant) (string, error) {
	if inv.fn != nil {
		return inv.fn(st), nil
	}
	env := vc.localEnv(fr, st)
	t := env.evalBool(inv.expr)
	return t, env.err
}

// localEnv gives spec expressions access to parameters (entry values) and to
// local variables by source name (current values).
func (vc *VC) localEnv(fr *Frame, st *State) *Env {
	vars := map[string]Val{}
	for k, v := range fr.env0 {
		vars["old_"+k] = v
	}
	// locals: cells by name; later declarations shadow earlier ones
	type nc struct {
		c  *Cell
		id int
	}
	byName := map[string][]nc{}
	for a, c := range fr.cellOf {
		_ = a
		if _, live := st.cells[c]; live {
			byName[c.Name] = append(byName[c.Name], nc{c, c.id})
		}
	}
	for name, cs := range byName {
		sort.Slice(cs, func(i, j int) bool { return cs[i].id < cs[j].id })
		for i, x := range cs {
			v := st.cells[x.c]
			if i == len(cs)-1 {
				vars[name] = v
			}
			vars[fmt.Sprintf("%s#%d", name, i+1)] = v
		}
	}
	// heap-allocated locals (escaping allocs)
	for a, v := range fr.regs {
		if al, ok := a.(*ssa.Alloc); ok && al.Comment != "" && v.K == KPtr && v.L != nil && v.L.Kind != locCell {
			if _, dup := vars[al.Comment]; !dup {
				vars[al.Comment] = vc.load(st, v.L)
			}
		}
	}
	for k, v := range fr.env0 {
		if _, shadow := vars[k]; !shadow {
			vars[k] = v
		}
	}
	// captured variables of a closure
	for _, fv := range fr.fn.FreeVars {
		if _, shadow := vars[fv.Name()]; shadow {
			continue
		}
		if pv, ok := fr.regs[fv]; ok && pv.K == KPtr && pv.L != nil {
			vars[fv.Name()] = vc.load(st, pv.L)
		}
	}
	qn := 0
	return &Env{vc: vc, st: st, old: fr.entry, vars: vars, pkg: pkgOf(fr.fn), qn: &qn}
}

func pkgOf(fn *ssa.Function) *types.Package {
	for fn.Parent() != nil {
		fn = fn.Parent()
	}
	if fn.Pkg != nil {
		return fn.Pkg.Pkg
	}
	if fn.Object() != nil {
		return fn.Object().Pkg()
	}
	return nil
}

func (vc *VC) loopInvariants(fr *Frame, li *loopInfo) []invariant {
	var out []invariant
	// automatic invariant for range-index loops
	if strings.HasPrefix(li.header.Comment, "rangeindex.loop") {
		var idxAlloc *ssa.Alloc
		var bound ssa.Value
		for _, in := range li.header.Instrs {
			if u, ok := in.(*ssa.UnOp); ok && u.Op == token.MUL && idxAlloc == nil {
				if a, ok := u.X.(*ssa.Alloc); ok && a.Comment == "rangeindex" {
					idxAlloc = a
				}
			}
			if b, ok := in.(*ssa.BinOp); ok && b.Op == token.LSS {
				bound = b.Y
			}
		}
		if idxAlloc != nil && bound != nil {
			a, bv := idxAlloc, bound
			out = append(out, invariant{src: "auto: -1 <= rangeindex < len", fn: func(st *State) string {
				c := fr.cellOf[a]
				if c == nil {
					return "true"
				}
				v, ok := st.cells[c]
				if !ok {
					return "true"
				}
				b := vc.value(fr, bv)
				if b.K != KScalar {
					return "true"
				}
				return and(sx("bvsle", bvInt(-1, 64), v.S), or(sx("bvslt", v.S, b.S), eq(v.S, bvInt(-1, 64))))
			}})
		}
	}
	if fr.top && fr.con != nil && fr.con.HasMod && vc.next0 != "" && !fr.con.Flags["noloopframe"] {
		// the function's frame holds at every loop head: objects that existed at entry differ from
		// their entry values only as the modifies clauses allow (checked on entry and at every back
		// edge like any invariant; lets targeted or whole-variable havoc keep the frame)
		con := fr.con
		lm := vc.loopMods(fr, li)
		out = append(out, invariant{src: "auto: the modifies clause holds so far", fn: func(st *State) string {
			var gs []string
			for _, g := range vc.frameGoals(fr.fn, con, fr.params, fr.entry, st, vc.next0) {
				// only heap variables this loop can write need to be re-established
				if k := strings.Index(g.name, "#frame:"); k >= 0 && !lm.all {
					if _, written := lm.heap[g.name[k+len("#frame:"):]]; !written {
						continue
					}
				}
				gs = append(gs, g.goal)
			}
			return and(gs...)
		}})
	}
	if fr.con != nil {
		for _, cl := range fr.con.Invs[li.ordinal] {
			out = append(out, invariant{src: cl.Src, expr: cl.Expr})
		}
	}
	return out
}

// stableValue evaluates, in the state before the loop, an SSA value that is computed inside the
// loop body from loads of memory the loop provably does not write (locals it does not assign,
// fields whose heap variables are not in the modification set). Such a value is the same in every
// iteration, so it can serve as a modification root.
func (vc *VC) stableValue(fr *Frame, st *State, mods *modSet, li *loopInfo, v ssa.Value, depth int) (Val, bool) {
	if depth > 8 || mods.all {
		return Val{}, false
	}
	if in, isInstr := v.(ssa.Instruction); !isInstr || !li.body[in.Block()] {
		if al, isAlloc := v.(*ssa.Alloc); isAlloc {
			if c := fr.cellOf[al]; c != nil {
				return Val{K: KPtr, T: al.Type(), L: &Loc{Kind: locCell, Cell: c}}, !mods.allocs[al]
			}
		}
		switch v.(type) {
		case *ssa.Parameter, *ssa.Global, *ssa.FreeVar, *ssa.Const:
			x := vc.value(fr, v)
			return x, x.K != KBad
		}
		x, has := fr.regs[v]
		return x, has && x.K != KBad
	}
	switch in := v.(type) {
	case *ssa.FieldAddr:
		x, ok := vc.stableValue(fr, st, mods, li, in.X, depth+1)
		if !ok || x.K != KPtr || x.L == nil {
			return Val{}, false
		}
		return Val{K: KPtr, T: in.Type(), L: x.L.extend(pathElem{Field: in.Field})}, true
	case *ssa.UnOp:
		if in.Op != token.MUL {
			return Val{}, false
		}
		x, ok := vc.stableValue(fr, st, mods, li, in.X, depth+1)
		if !ok || x.K != KPtr || x.L == nil {
			return Val{}, false
		}
		switch x.L.Kind {
		case locCell:
			if _, live := st.cells[x.L.Cell]; !live {
				return Val{}, false
			}
			for a := range mods.allocs {
				if fr.cellOf[a] == x.L.Cell {
					return Val{}, false
				}
			}
		case locObj:
			prefix, t, idx := pathPrefix(x.L.Base, x.L.Path)
			if idx != "" {
				return Val{}, false
			}
			for _, lf := range leavesOf(t) {
				if lf.bad {
					return Val{}, false
				}
				if _, written := mods.heap[fieldHeap(x.L.Base, prefix+lf.path)]; written {
					return Val{}, false
				}
			}
		default:
			return Val{}, false
		}
		r := vc.load(st, x.L)
		return r, r.K != KBad
	}
	return Val{}, false
}

type modSet struct {
	allocs map[*ssa.Alloc]bool
	heap   map[string]string // heap var -> sort
	ghost  map[string]bool
	all    bool
	// roots[h]: the SSA values (object pointers / slices) through which heap var h is written in the
	// loop; whole[h] is set when some write goes through an unknown root
	roots map[string][]ssa.Value
	whole map[string]bool
	cur   ssa.Value // root of the store being recorded (nil = unknown)
	top   bool
}

func newModSet() *modSet {
	return &modSet{allocs: map[*ssa.Alloc]bool{}, heap: map[string]string{}, ghost: map[string]bool{}, roots: map[string][]ssa.Value{}, whole: map[string]bool{}}
}

func (ms *modSet) record(name, sort string) {
	ms.heap[name] = sort
	if ms.cur == nil || !ms.top {
		ms.whole[name] = true
		return
	}
	for _, r := range ms.roots[name] {
		if r == ms.cur {
			return
		}
	}
	ms.roots[name] = append(ms.roots[name], ms.cur)
}

func (vc *VC) loopMods(fr *Frame, li *loopInfo) *modSet {
	ms := newModSet()
	ms.top = true
	for b := range li.body {
		vc.modsOfBlock(b, ms, fr.depth, map[*ssa.Function]bool{fr.fn: true})
	}
	return ms
}

func addHeapLeaves(ms *modSet, base types.Type, prefix string, t types.Type, elemMode bool) {
	for _, lf := range leavesOf(t) {
		if lf.bad {
			continue
		}
		if elemMode {
			ms.record(elemHeap(base, prefix+lf.path), arraySort(sortRef, arraySort(sortIdx, lf.sort)))
		} else {
			ms.record(fieldHeap(base, prefix+lf.path), arraySort(sortRef, lf.sort))
		}
	}
}

// addrRoot walks an address expression back to its root.
// It returns the root value, the base type of the root object, the field path prefix, and
// whether the root is a slice element.
func addrRoot(v ssa.Value) (root ssa.Value, base types.Type, prefix string, elem bool, ok bool) {
	switch a := v.(type) {
	case *ssa.FieldAddr:
		pt := a.X.Type().Underlying().(*types.Pointer).Elem()
		f := pt.Underlying().(*types.Struct).Field(a.Field)
		r, b, p, e, ok := addrRoot(a.X)
		if !ok {
			return nil, nil, "", false, false
		}
		if b == nil {
			b = pt
		}
		return r, b, p + "." + f.Name(), e, true
	case *ssa.IndexAddr:
		switch xt := a.X.Type().Underlying().(type) {
		case *types.Slice:
			return a.X, xt.Elem(), "", true, true
		case *types.Pointer:
			// pointer to array
			r, b, p, e, ok := addrRoot(a.X)
			if !ok {
				return nil, nil, "", false, false
			}
			at := xt.Elem().Underlying().(*types.Array)
			if b == nil {
				// array object itself: heap array => element store
				return r, at.Elem(), "", true, true
			}
			return r, b, p, e, true
		}
		return nil, nil, "", false, false
	default:
		return v, nil, "", false, true
	}
}

func (vc *VC) modsOfBlock(b *ssa.BasicBlock, ms *modSet, depth int, seen map[*ssa.Function]bool) {
	for _, in := range b.Instrs {
		switch in := in.(type) {
		case *ssa.Store:
			root, base, prefix, elem, ok := addrRoot(in.Addr)
			if !ok {
				ms.all = true
				continue
			}
			ms.cur = root
			if ld, isLoad := root.(*ssa.UnOp); isLoad && ld.Op == token.MUL {
				// the pointer/slice is read from a local variable: the variable itself is the root
				if al, ok := ld.X.(*ssa.Alloc); ok && !allocEscapes(al) {
					ms.cur = al
				}
			}
			if al, isAlloc := root.(*ssa.Alloc); isAlloc && !elem {
				ms.allocs[al] = true
				// if the alloc escapes its content lives on the heap
				if allocEscapes(al) && !appendOperandOnly(al) {
					bt := al.Type().Underlying().(*types.Pointer).Elem()
					if base == nil {
						base = bt
					}
					addHeapLeaves(ms, bt, prefix, in.Val.Type(), false)
					if _, isArr := bt.Underlying().(*types.Array); isArr {
						// the array object's contents live in the element heap of its element type
						et := bt.Underlying().(*types.Array).Elem()
						addHeapLeaves(ms, et, "", et, true)
					}
				}
				ms.cur = nil
				continue
			}
			if base == nil {
				base = in.Addr.Type().Underlying().(*types.Pointer).Elem()
			}
			addHeapLeaves(ms, base, prefix, in.Val.Type(), elem)
			ms.cur = nil
		case *ssa.MapUpdate:
			ms.cur = in.Map
			if ld, isLoad := in.Map.(*ssa.UnOp); isLoad && ld.Op == token.MUL {
				if al, ok := ld.X.(*ssa.Alloc); ok && !allocEscapes(al) {
					ms.cur = al
				}
			}
			vc.addMapMods(ms, in.Map.Type())
			ms.cur = nil
		case *ssa.Call:
			vc.modsOfCall(&in.Call, ms, depth, seen)
		case *ssa.Defer:
			vc.modsOfCall(&in.Call, ms, depth, seen)
		case *ssa.Send, *ssa.Go, *ssa.Select:
			// channel traffic does not modify modelled heap
		}
	}
}

func (vc *VC) addMapMods(ms *modSet, mt types.Type) {
	m, ok := mt.Underlying().(*types.Map)
	if !ok {
		ms.all = true
		return
	}
	for n, s := range vc.mapHeaps(m) {
		ms.record(n, s)
	}
}

func (vc *VC) modsOfCall(c *ssa.CallCommon, ms *modSet, depth int, seen map[*ssa.Function]bool) {
	if b, ok := c.Value.(*ssa.Builtin); ok {
		switch b.Name() {
		case "append", "copy":
			if st, ok := c.Args[0].Type().Underlying().(*types.Slice); ok {
				addHeapLeaves(ms, st.Elem(), "", st.Elem(), true)
			}
		case "delete", "clear":
			ms.cur = c.Args[0]
			vc.addMapMods(ms, c.Args[0].Type())
			ms.cur = nil
		}
		return
	}
	if c.IsInvoke() {
		if vc.eng.isPureMethod(c) {
			return
		}
		if c.Method.Name() == "Error" || c.Method.Name() == "String" {
			return
		}
		ms.all = true
		return
	}
	callee := c.StaticCallee()
	if callee == nil {
		if mc, ok := c.Value.(*ssa.MakeClosure); ok {
			callee = mc.Fn.(*ssa.Function)
		} else {
			ms.all = true
			return
		}
	}
	key := funcKey(callee)
	if vc.eng.isNoEffect(key) || isLockFunc(key) {
		return
	}
	if _, ok := intrinsics[key]; ok {
		if mods, has := intrinsicMods[key]; has {
			for _, m := range mods {
				ms.heap[m[0]] = m[1]
			}
		}
		return
	}
	if con := vc.eng.cs.Funcs[key]; con != nil && !con.Flags["inline"] {
		if con.Flags["pure"] || (len(con.Modifies) == 0) {
			return
		}
		for _, m := range con.Modifies {
			if m == "*" {
				ms.all = true
				return
			}
			if strings.HasPrefix(m, "ghost ") {
				ms.ghost[strings.TrimSpace(m[6:])] = true
				continue
			}
			// expressions: determine heap vars from types
			if !vc.modsFromModifiesExpr(callee, m, ms) {
				ms.all = true
				return
			}
		}
		return
	}
	if callee.Blocks == nil || seen[callee] || depth >= maxInlineDepth {
		ms.all = true
		return
	}
	seen[callee] = true
	wasTop := ms.top
	ms.top = false
	for _, b := range callee.Blocks {
		vc.modsOfBlock(b, ms, depth+1, seen)
	}
	ms.top = wasTop
	delete(seen, callee)
}

// modsFromModifiesExpr maps a modifies entry of callee (e.g. "k[*]", "p.f", "p.*") to heap variables.
func (vc *VC) modsFromModifiesExpr(callee *ssa.Function, m string, ms *modSet) bool {
	lookup := func(name string) types.Type {
		for _, p := range callee.Params {
			if p.Name() == name {
				return p.Type()
			}
		}
		return nil
	}
	if strings.HasSuffix(m, "[*]") {
		base := strings.TrimSuffix(m, "[*]")
		t := vc.typeOfPath(lookup, base)
		if t == nil {
			return false
		}
		if st, ok := t.Underlying().(*types.Slice); ok {
			addHeapLeaves(ms, st.Elem(), "", st.Elem(), true)
			return true
		}
		if mt, ok := t.Underlying().(*types.Map); ok {
			vc.addMapMods(ms, mt)
			return true
		}
		if pt, ok := t.Underlying().(*types.Pointer); ok {
			if at, ok := pt.Elem().Underlying().(*types.Array); ok {
				addHeapLeaves(ms, at.Elem(), "", at.Elem(), true)
				return true
			}
		}
		return false
	}
	if i := strings.LastIndexByte(m, '.'); i > 0 {
		base, f := m[:i], m[i+1:]
		t := vc.typeOfPath(lookup, base)
		if t == nil {
			return false
		}
		if pt, ok := t.Underlying().(*types.Pointer); ok {
			t = pt.Elem()
		}
		stt, ok := t.Underlying().(*types.Struct)
		if !ok {
			return false
		}
		if f == "*" {
			addHeapLeaves(ms, t, "", t, false)
			return true
		}
		for i := 0; i < stt.NumFields(); i++ {
			if stt.Field(i).Name() == f {
				addHeapLeaves(ms, t, "."+f, stt.Field(i).Type(), false)
				return true
			}
		}
	}
	return false
}

func (vc *VC) typeOfPath(lookup func(string) types.Type, path string) types.Type {
	parts := strings.Split(path, ".")
	t := lookup(parts[0])
	for _, f := range parts[1:] {
		if t == nil {
			return nil
		}
		if pt, ok := t.Underlying().(*types.Pointer); ok {
			t = pt.Elem()
		}
		st, ok := t.Underlying().(*types.Struct)
		if !ok {
			return nil
		}
		var nt types.Type
		for i := 0; i < st.NumFields(); i++ {
			if st.Field(i).Name() == f {
				nt = st.Field(i).Type()
			}
		}
		t = nt
	}
	return t
}

// value returns the symbolic value of an SSA value.
func (vc *VC) value(fr *Frame, v ssa.Value) Val {
	switch v := v.(type) {
	case *ssa.Const:
		if v.Value == nil {
			return vc.zero(v.Type())
		}
		return vc.constVal(v.Type(), v.Value)
	case *ssa.Global:
		return Val{K: KPtr, T: v.Type(), L: vc.globalLoc(v.Object())}
	case *ssa.Function:
		return Val{K: KRef, T: v.Type(), S: vc.funcConst(v), Clo: &Closure{Fn: v}}
	case *ssa.Builtin:
		return bad(v.Type(), "builtin as value")
	}
	if x, ok := fr.regs[v]; ok {
		return x
	}
	return bad(v.Type(), "undefined SSA value "+v.Name())
}

func (vc *VC) funcConst(f *ssa.Function) string {
	n := quote("fn!" + funcKey(f))
	if _, ok := vc.sc.declared[n]; !ok {
		vc.sc.declare(n, sortRef)
		vc.sc.assert(sx("<", n, "0"))
	}
	return n
}

func (vc *VC) globalLoc(o types.Object) *Loc {
	name := "g!" + o.Pkg().Path() + "." + o.Name()
	n := quote(name)
	if _, ok := vc.sc.declared[n]; !ok {
		vc.sc.declare(n, sortRef)
		// globals live at distinct negative addresses
		id := len(vc.typeTags) + 1000 + len(vc.sc.declared)
		vc.sc.assert(eq(n, fmt.Sprintf("(- %d)", id)))
	}
	t := o.Type()
	if at, isArr := t.Underlying().(*types.Array); isArr {
		if vals, ok := vc.eng.globalTables[o]; ok && !vc.tablesDone[n] {
			// immutable lookup table: contents from the source initialiser
			if vc.tablesDone == nil {
				vc.tablesDone = map[string]bool{}
			}
			vc.tablesDone[n] = true
			els := leavesOf(at.Elem())
			if len(els) == 1 && !els[0].bad {
				hn := elemHeap(at.Elem(), "")
				hs := arraySort(sortRef, arraySort(sortIdx, els[0].sort))
				h0 := quote(hn + "@0")
				vc.heapSorts[hn] = hs
				vc.sc.declare(h0, hs)
				for i, cv := range vals {
					ev := vc.constVal(at.Elem(), cv)
					vc.sc.assert(eq(sx("select", sx("select", h0, n), i64(int64(i))), ev.S))
				}
				vc.eng.usedTrusted["package-level table "+o.Pkg().Name()+"."+o.Name()+" is never modified after initialisation (checked: no store in any function); contents taken from its initialiser"] = true
			}
		}
		return &Loc{Kind: locArr, Ref: n, Base: t}
	}
	return &Loc{Kind: locObj, Ref: n, Base: t}
}

func (vc *VC) execBlock(fr *Frame, b *ssa.BasicBlock, st *State, in map[*ssa.BasicBlock][]edgeState) {
	fn := fr.fn
	// phis
	for _, ins := range b.Instrs {
		phi, ok := ins.(*ssa.Phi)
		if !ok {
			break
		}
		var pcs []string
		var vals []Val
		for _, e := range in[b] {
			for i, p := range b.Preds {
				if p == e.pred {
					pcs = append(pcs, e.st.pc)
					vals = append(vals, vc.value(fr, phi.Edges[i]))
					break
				}
			}
		}
		if len(vals) == 0 {
			fr.regs[phi] = bad(phi.Type(), "phi without inputs")
		} else if len(vals) == 1 {
			fr.regs[phi] = vals[0]
		} else {
			fr.regs[phi] = vc.mergeVals(pcs, vals, phi.Name())
		}
	}
	fired := map[*Clause]bool{}
	prevLine := ""
	for _, ins := range b.Instrs {
		if fr.con != nil && len(fr.con.Asserts) > 0 {
			if _, dbg := ins.(*ssa.DebugRef); !dbg {
				// `after` anchors: the previous source line of this block has been executed completely
				cur := ""
				if ins.Pos().IsValid() {
					cur = vc.eng.lineTextFull(vc.pos(ins.Pos()))
				}
				_, isTerm := ins.(*ssa.Jump)
				if _, isIf := ins.(*ssa.If); isIf {
					// `if x := f(); cond {`: the line ends with the branch itself
					isTerm = true
				}
				if prevLine != "" && ((cur != "" && cur != prevLine) || isTerm) {
					vc.afterAnchors(fr, st, prevLine, ins, fired)
				}
				if cur != "" {
					prevLine = cur
				}
				vc.inlineAsserts(fr, st, ins, fired)
			}
		}
		switch ins := ins.(type) {
		case *ssa.Phi, *ssa.DebugRef:
			continue
		case *ssa.If:
			c := vc.value(fr, ins.Cond)
			if c.K != KScalar {
				vc.unsupported("%s: branch on unsupported condition (%s)", funcKey(fn), c.Why)
				c = boolVal(vc.sc.fresh("unkcond", sortBool))
			}
			cn := vc.sc.define("c", sortBool, c.S)
			t := st.clone()
			vc.assume(t, cn)
			f := st
			vc.assume(f, not(cn))
			vc.flow(fr, b, b.Succs[0], t, in)
			vc.flow(fr, b, b.Succs[1], f, in)
			return
		case *ssa.Jump:
			vc.flow(fr, b, b.Succs[0], st, in)
			return
		case *ssa.Return:
			var vals []Val
			for _, r := range ins.Results {
				vals = append(vals, vc.value(fr, r))
			}
			fr.rets = append(fr.rets, retRec{st.clone(), vals, instrPos(fn, ins)})
			return
		case *ssa.Panic:
			vc.oblige(st, "nopanic", "nopanic.explicit:"+vc.srcText(fn, ins), "explicit panic reachable", vc.pos(instrPos(fn, ins)), "false")
			return
		default:
			vc.execInstr(fr, ins, st)
			if v, ok := ins.(ssa.Value); ok {
				if r, has := fr.regs[v]; has && r.K == KBad {
					if _, isPtr := v.Type().Underlying().(*types.Pointer); !isPtr {
						vc.unsupported("%s: %s (value treated as arbitrary)", funcKey(fn), r.Why)
						sym, _ := vc.symbolic(v.Type(), "abs")
						vc.assume(st, vc.wf(st, sym))
						fr.regs[v] = sym
					}
				}
			}
		}
	}
}

func (vc *VC) flow(fr *Frame, from, to *ssa.BasicBlock, st *State, in map[*ssa.BasicBlock][]edgeState) {
	if isBackEdge(from, to) {
		li := fr.loops[to]
		if li == nil {
			return
		}
		pos := vc.pos(instrPos(fr.fn, from.Instrs[len(from.Instrs)-1]))
		for i, inv := range vc.loopInvariants(fr, li) {
			t, err := vc.evalInv(fr, st, inv)
			if err != nil {
				vc.unsupported("invariant %q: %v", inv.src, err)
				t = "false"
			}
			vc.oblige(st, "invariant", fmt.Sprintf("%s#inv.loop%d.preserved.%d", funcKey(fr.fn), li.ordinal, i+1), "loop invariant preserved: "+inv.src, pos, t)
		}
		// the lockset is part of every loop's invariant: an iteration must end with the mutexes it
		// started with (otherwise what is assumed held at the loop head is not held in the next iteration)
		if vc.topCon != nil && (vc.topCon.Flags["lockset"] || vc.topCon.Flags["lockbalance"]) && li.headLocks != nil &&
			(fr.top || (vc.topFn != nil && isNestedIn(fr.fn, vc.topFn))) {
			var diff []string
			seen := map[string]bool{}
			for l, m := range li.headLocks {
				seen[l] = true
				if strings.HasPrefix(l, "#n:") {
					continue
				}
				if st.locks[l] != m {
					diff = append(diff, fmt.Sprintf("%s (mode %d at the loop head, %d at the end of the iteration)", l, m, st.locks[l]))
				}
			}
			for l, m := range st.locks {
				if !seen[l] && !strings.HasPrefix(l, "#n:") && m != 0 {
					diff = append(diff, fmt.Sprintf("%s (not held at the loop head, mode %d at the end of the iteration)", l, m))
				}
			}
			sort.Strings(diff)
			goal, desc := "true", "an iteration ends with the mutexes it started with"
			if len(diff) > 0 {
				goal, desc = "false", "loop iteration changes the lockset: "+strings.Join(diff, "; ")
			}
			vc.oblige(st, "lockset", fmt.Sprintf("%s#lockset.loop%d", funcKey(vc.topFn), li.ordinal), desc, pos, goal)
		}
		return
	}
	in[to] = append(in[to], edgeState{from, st})
}

func (vc *VC) execInstr(fr *Frame, ins ssa.Instruction, st *State) {
	fn := fr.fn
	pos := vc.pos(instrPos(fn, ins))
	switch ins := ins.(type) {
	case *ssa.Alloc:
		et := ins.Type().Underlying().(*types.Pointer).Elem()
		if at, isArr := et.Underlying().(*types.Array); isArr && at.Len() <= 16 && appendOperandOnly(ins) {
			// `append(x, a, b)`: the hidden [N]T array is kept as N explicit element values
			vc.cellN++
			c := &Cell{Name: ins.Comment, T: et, id: vc.cellN}
			fr.cellOf[ins] = c
			lst := Val{K: KTuple, T: et}
			for i := int64(0); i < at.Len(); i++ {
				lst.F = append(lst.F, vc.zero(at.Elem()))
			}
			st.cells[c] = lst
			fr.regs[ins] = Val{K: KPtr, T: ins.Type(), L: &Loc{Kind: locCell, Cell: c, Base: et}}
			return
		}
		if !allocEscapes(ins) {
			vc.cellN++
			c := &Cell{Name: ins.Comment, T: et, id: vc.cellN}
			fr.cellOf[ins] = c
			st.cells[c] = vc.zero(et)
			fr.regs[ins] = Val{K: KPtr, T: ins.Type(), L: &Loc{Kind: locCell, Cell: c, Base: et}}
			return
		}
		r := vc.alloc(st, "obj")
		if at, isArr := et.Underlying().(*types.Array); isArr {
			l := &Loc{Kind: locArr, Ref: r, Base: et}
			for _, lf := range leavesOf(at.Elem()) {
				if lf.bad {
					continue
				}
				hn := elemHeap(at.Elem(), lf.path)
				inner := arraySort(sortIdx, lf.sort)
				hs := arraySort(sortRef, inner)
				h := vc.heapGet(st, hn, hs)
				vc.heapSet(st, hn, hs, vc.sc.define("h", hs, store(h, r, vc.sc.constArray(inner, vc.zeroLeaf(lf)))))
			}
			fr.regs[ins] = Val{K: KPtr, T: ins.Type(), L: l}
			return
		}
		l := &Loc{Kind: locObj, Ref: r, Base: et}
		vc.storeTo(st, l, vc.zero(et))
		fr.regs[ins] = Val{K: KPtr, T: ins.Type(), L: l}
	case *ssa.Store:
		a := vc.value(fr, ins.Addr)
		v := vc.value(fr, ins.Val)
		vc.guardCheck(fr, st, ins.Addr, true, pos)
		if a.K != KPtr || a.L == nil {
			vc.unsupported("%s: store through unsupported pointer (%s)", funcKey(fn), a.Why)
			vc.havocAllHeap(st)
			return
		}
		vc.nilCheck(st, a.L, pos, vc.srcText(fn, ins))
		vc.storeTo(st, a.L, v)
	case *ssa.UnOp:
		x := vc.value(fr, ins.X)
		switch ins.Op {
		case token.MUL:
			vc.guardCheck(fr, st, ins.X, guardedMapWrite(ins), pos)
			if x.K != KPtr || x.L == nil {
				fr.regs[ins] = bad(ins.Type(), "load through unsupported pointer: "+x.Why)
				return
			}
			vc.nilCheck(st, x.L, pos, vc.srcText(fn, ins))
			v := vc.load(st, x.L)
			if x.L.Kind != locCell {
				vc.assume(st, vc.wf(st, v))
				vc.assumeTypeInv(st, x.L)
				v.Own = false
			} else if v.K == KSlice && v.Own && len(x.L.Path) == 0 {
				if consumedByAppend(ins) {
					v.From = x.L.Cell
				} else {
					// a second reference to the array now exists
					v.Own = false
					cv := st.cells[x.L.Cell]
					cv.Own = false
					st.cells[x.L.Cell] = cv
				}
			} else {
				v.Own = false
			}
			if v.T == nil || v.K == KPtr {
				v.T = ins.Type()
			}
			if g, isGlobal := ins.X.(*ssa.Global); isGlobal && v.K == KIface && vc.eng.nonNilGlobals[g.Object()] {
				vc.assume(st, not(eq(v.If[0], "0")))
				vc.eng.usedTrusted["package-level error values created by errors.New/fmt.Errorf and never reassigned are non-nil"] = true
			}
			fr.regs[ins] = v
		case token.ARROW:
			v, _ := vc.symbolic(ins.Type(), "recv")
			vc.assume(st, vc.wf(st, v))
			vc.note("channel receive modelled as arbitrary value")
			fr.regs[ins] = v
		default:
			fr.regs[ins] = vc.unop(st, ins.Op, x, pos)
		}
	case *ssa.BinOp:
		fr.regs[ins] = vc.binop(st, ins.Op, vc.value(fr, ins.X), vc.value(fr, ins.Y), pos)
		if fr.regs[ins].T == nil || !types.Identical(fr.regs[ins].T, ins.Type()) {
			v := fr.regs[ins]
			if v.K == KScalar {
				v.T = ins.Type()
				fr.regs[ins] = v
			}
		}
	case *ssa.ChangeType:
		fr.regs[ins] = retag(vc.value(fr, ins.X), ins.Type())
	case *ssa.Convert:
		fr.regs[ins] = vc.convert(st, vc.value(fr, ins.X), ins.Type(), pos)
	case *ssa.MultiConvert:
		fr.regs[ins] = vc.convert(st, vc.value(fr, ins.X), ins.Type(), pos)
	case *ssa.ChangeInterface:
		v := vc.value(fr, ins.X)
		v.T = ins.Type()
		fr.regs[ins] = v
	case *ssa.FieldAddr:
		x := vc.value(fr, ins.X)
		if x.K != KPtr || x.L == nil {
			fr.regs[ins] = bad(ins.Type(), "fieldaddr on unsupported pointer: "+x.Why)
			return
		}
		vc.nilCheck(st, x.L, pos, vc.srcText(fn, ins))
		fr.regs[ins] = Val{K: KPtr, T: ins.Type(), L: x.L.extend(pathElem{Field: ins.Field})}
	case *ssa.Field:
		x := vc.value(fr, ins.X)
		if x.K != KStruct {
			fr.regs[ins] = bad(ins.Type(), "field of non-struct: "+x.Why)
			return
		}
		fr.regs[ins] = x.F[ins.Field]
	case *ssa.IndexAddr:
		x := vc.value(fr, ins.X)
		i := vc.value(fr, ins.Index)
		if x.K == KBad || i.K == KBad {
			fr.regs[ins] = bad(ins.Type(), "indexaddr: "+x.Why+i.Why)
			return
		}
		if x.K == KPtr && x.L != nil && x.L.Kind == locCell && len(x.L.Path) == 0 {
			if cv, ok := st.cells[x.L.Cell]; ok && cv.K == KTuple {
				if k, ok := isSmallLit(toIdx(i), 15); ok && int(k) < len(cv.F) {
					fr.regs[ins] = Val{K: KPtr, T: ins.Type(), L: x.L.extend(pathElem{Field: int(k)})}
					return
				}
			}
		}
		if x.K == KPtr && x.L != nil {
			vc.nilCheck(st, x.L, pos, vc.srcText(fn, ins))
		}
		l := vc.indexLoc(st, x, i, pos, vc.srcText(fn, ins))
		if l == nil {
			fr.regs[ins] = bad(ins.Type(), "indexaddr on "+x.String())
			return
		}
		fr.regs[ins] = Val{K: KPtr, T: ins.Type(), L: l}
	case *ssa.Index:
		x := vc.value(fr, ins.X)
		i := vc.value(fr, ins.Index)
		if x.K == KBad || i.K == KBad {
			fr.regs[ins] = bad(ins.Type(), "index: "+x.Why+i.Why)
			return
		}
		idx := toIdx(i)
		switch x.K {
		case KArray:
			n := x.T.Underlying().(*types.Array).Len()
			vc.oblige(st, "nopanic", "nopanic.index:"+vc.srcText(fn, ins), "index out of range", pos, and(sx("bvsle", i64(0), idx), sx("bvslt", idx, i64(n))))
			fr.regs[ins] = unflatten(ins.Type(), []string{sel(x.S, idx)})
		case KScalar:
			vc.declStr()
			vc.oblige(st, "nopanic", "nopanic.index:"+vc.srcText(fn, ins), "index out of range", pos, and(sx("bvsle", i64(0), idx), sx("bvslt", idx, sx("s.len", x.S))))
			fr.regs[ins] = Val{K: KScalar, T: ins.Type(), S: sx("s.at", x.S, idx)}
		default:
			fr.regs[ins] = bad(ins.Type(), "index on "+x.String())
		}
	case *ssa.Slice:
		x := vc.value(fr, ins.X)
		var lo, hi, mx *Val
		if ins.Low != nil {
			v := vc.value(fr, ins.Low)
			lo = &v
		}
		if ins.High != nil {
			v := vc.value(fr, ins.High)
			hi = &v
		}
		if ins.Max != nil {
			v := vc.value(fr, ins.Max)
			mx = &v
		}
		if x.K == KPtr && x.L != nil && x.L.Kind == locCell && len(x.L.Path) == 0 && lo == nil && hi == nil {
			if cv, ok := st.cells[x.L.Cell]; ok && cv.K == KTuple {
				n := i64(int64(len(cv.F)))
				fr.regs[ins] = Val{K: KSlice, T: ins.Type(), Sl: [4]string{"-1", i64(0), n, n}, Lit: cv.F}
				return
			}
		}
		if x.K == KPtr && x.L != nil {
			vc.nilCheck(st, x.L, pos, vc.srcText(fn, ins))
		}
		r := vc.sliceOp(st, x, lo, hi, mx, ins.Type(), pos, vc.srcText(fn, ins))
		if al, ok := ins.X.(*ssa.Alloc); ok && r.K == KSlice && ins.Low == nil && allocSlicedOnce(al, ins) {
			r.Own = true
		}
		fr.regs[ins] = r
	case *ssa.MakeSlice:
		ms := vc.makeSlice(st, ins.Type(), vc.value(fr, ins.Len), vc.value(fr, ins.Cap), pos)
		ms.Own = true
		fr.regs[ins] = ms
	case *ssa.MakeMap:
		fr.regs[ins] = vc.makeMap(st, ins.Type())
	case *ssa.MakeChan:
		fr.regs[ins] = Val{K: KRef, T: ins.Type(), S: vc.alloc(st, "chan")}
	case *ssa.MakeInterface:
		fr.regs[ins] = vc.makeIface(st, vc.value(fr, ins.X), ins.X.Type(), ins.Type())
	case *ssa.MakeClosure:
		var bs []Val
		for _, b := range ins.Bindings {
			bs = append(bs, vc.value(fr, b))
		}
		fr.regs[ins] = Val{K: KRef, T: ins.Type(), S: vc.alloc(st, "clo"), Clo: &Closure{Fn: ins.Fn.(*ssa.Function), Bindings: bs}}
	case *ssa.TypeAssert:
		fr.regs[ins] = vc.typeAssert(st, ins, vc.value(fr, ins.X), pos, vc.srcText(fn, ins))
	case *ssa.Extract:
		t := vc.value(fr, ins.Tuple)
		if t.K != KTuple || ins.Index >= len(t.F) {
			fr.regs[ins] = bad(ins.Type(), "extract from non-tuple: "+t.Why)
			return
		}
		v := t.F[ins.Index]
		if v.T == nil {
			v.T = ins.Type()
		}
		fr.regs[ins] = v
	case *ssa.Lookup:
		x := vc.value(fr, ins.X)
		k := vc.value(fr, ins.Index)
		if mt, ok := ins.X.Type().Underlying().(*types.Map); ok {
			v, found := vc.mapLookup(st, x, k, mt)
			if v.K != KBad {
				vc.assume(st, vc.wf(st, v))
			}
			if ins.CommaOk {
				fr.regs[ins] = Val{K: KTuple, T: ins.Type(), F: []Val{v, boolVal(found)}}
			} else {
				fr.regs[ins] = v
			}
			return
		}
		// string index
		idx := toIdx(k)
		vc.declStr()
		vc.oblige(st, "nopanic", "nopanic.index:"+vc.srcText(fn, ins), "index out of range", pos, and(sx("bvsle", i64(0), idx), sx("bvslt", idx, sx("s.len", x.S))))
		fr.regs[ins] = Val{K: KScalar, T: ins.Type(), S: sx("s.at", x.S, idx)}
	case *ssa.MapUpdate:
		m := vc.value(fr, ins.Map)
		vc.oblige(st, "nopanic", "nopanic.nilmap:"+vc.srcText(fn, ins), "assignment to entry in nil map", pos, not(eq(m.S, "0")))
		vc.mapUpdate(st, m, vc.value(fr, ins.Key), vc.value(fr, ins.Value), ins.Map.Type().Underlying().(*types.Map))
	case *ssa.Range:
		fr.regs[ins] = vc.rangeStart(fr, st, ins)
	case *ssa.Next:
		fr.regs[ins] = vc.rangeNext(fr, st, ins)
	case *ssa.Call:
		fr.regs[ins] = vc.call(fr, st, &ins.Call, ins, pos)
	case *ssa.Defer:
		fr.defers = append(fr.defers, ins)
		vc.deferEffect(fr, st, ins, pos)
	case *ssa.RunDefers:
		vc.runDefers(fr, st, pos)
	case *ssa.Go:
		// `go f(args)` where f is under a contract flagged `go_summary`: the spawned call is summarised by f's
		// contract at the point of the go statement (its ghost history effects describe what has been
		// INITIATED; heap effects per its modifies clause). Other go statements are not executed.
		if callee := ins.Call.StaticCallee(); callee != nil && !ins.Call.IsInvoke() {
			if con := vc.eng.cs.Funcs[funcKey(callee)]; con != nil && con.Flags["go_summary"] {
				var args []Val
				for _, a := range ins.Call.Args {
					args = append(args, vc.value(fr, a))
				}
				vc.applyContract(fr, st, callee, con, args, pos, vc.srcText(fn, ins))
				return
			}
		}
		// `go func(){...}()` of a closure of the function under a contract flagged `go_inline`: the closure
		// body is executed at the go statement (one possible schedule), so that its ghost events and
		// anchors are seen; its effects are those of the calls it makes
		if mc, ok := ins.Call.Value.(*ssa.MakeClosure); ok && vc.topCon != nil && vc.topCon.Flags["go_inline"] && fr.depth < maxInlineDepth {
			if cf, ok := mc.Fn.(*ssa.Function); ok && vc.topFn != nil && isNestedIn(cf, vc.topFn) && cf.Blocks != nil && len(findLoops(cf)) == 0 {
				fv := vc.value(fr, mc)
				var args []Val
				for _, a := range ins.Call.Args {
					args = append(args, vc.value(fr, a))
				}
				if fv.Clo != nil {
					_, out := vc.execFunc(cf, args, fv.Clo.Bindings, st, fr.depth+1, fr.con, false)
					*st = *out
					return
				}
			}
		}
		vc.note("go statement at %s:%d not executed; spawned body must be verified separately", shortFile(pos.Filename), pos.Line)
	case *ssa.Send:
		vc.sendEffect(fr, st, ins, pos)
	case *ssa.Select:
		v, _ := vc.symbolic(ins.Type(), "select")
		vc.note("select modelled as arbitrary choice")
		fr.regs[ins] = v
	case *ssa.SliceToArrayPointer:
		fr.regs[ins] = bad(ins.Type(), "slice to array pointer")
	default:
		vc.unsupported("%s: unsupported instruction %T", funcKey(fn), ins)
		if v, ok := ins.(ssa.Value); ok {
			fr.regs[v] = bad(v.Type(), fmt.Sprintf("unsupported instruction %T", ins))
		}
	}
}

func shortFile(f string) string {
	return strings.TrimPrefix(f, "/repo/")
}

func (vc *VC) makeIface(st *State, x Val, xt types.Type, it types.Type) Val {
	if x.K == KIface {
		x.T = it
		return x
	}
	tag := vc.typeTag(xt)
	switch x.K {
	case KPtr:
		if f, ok := flatten(x); ok {
			return Val{K: KIface, T: it, If: [2]string{tag, f[0]}}
		}
	case KRef:
		return Val{K: KIface, T: it, If: [2]string{tag, x.S}}
	}
	// boxed value: fresh box with unboxing functions
	f, ok := flatten(x)
	box := vc.alloc(st, "box")
	if ok && x.K != KBad {
		for i, lf := range leavesOf(xt) {
			if lf.bad {
				continue
			}
			fn := quote("unbox." + typeKey(xt) + lf.path)
			vc.sc.declareFun(fn, []string{sortRef}, lf.sort)
			vc.sc.assert(eq(sx(fn, box), f[i]))
		}
	}
	return Val{K: KIface, T: it, If: [2]string{tag, box}}
}

func (vc *VC) unbox(pay string, t types.Type) Val {
	if _, ok := t.Underlying().(*types.Pointer); ok {
		return ptrFromRef(t, pay)
	}
	switch t.Underlying().(type) {
	case *types.Map, *types.Chan, *types.Signature:
		return Val{K: KRef, T: t, S: pay}
	}
	ls := leavesOf(t)
	terms := make([]string, len(ls))
	for i, lf := range ls {
		fn := quote("unbox." + typeKey(t) + lf.path)
		vc.sc.declareFun(fn, []string{sortRef}, lf.sort)
		terms[i] = sx(fn, pay)
	}
	return unflatten(t, terms)
}

func (vc *VC) typeAssert(st *State, ins *ssa.TypeAssert, x Val, pos token.Position, what string) Val {
	if x.K != KIface {
		return bad(ins.Type(), "type assertion on non-interface: "+x.Why)
	}
	at := ins.AssertedType
	var okT string
	var v Val
	if _, isIface := at.Underlying().(*types.Interface); isIface {
		// interface-to-interface: succeeds iff dynamic type implements; unknown => arbitrary for non-nil
		b := vc.sc.fresh("implements", sortBool)
		okT = and(not(eq(x.If[0], "0")), b)
		v = Val{K: KIface, T: at, If: x.If}
	} else {
		okT = eq(x.If[0], vc.typeTag(at))
		v = vc.unbox(x.If[1], at)
	}
	if ins.CommaOk {
		// on failure the value is the zero value
		z := vc.zero(at)
		fv, ok1 := flatten(v)
		fz, ok2 := flatten(z)
		if ok1 && ok2 && len(fv) == len(fz) {
			out := make([]string, len(fv))
			for i := range fv {
				out[i] = ite(okT, fv[i], fz[i])
			}
			v = unflatten(at, out)
		}
		return Val{K: KTuple, T: ins.Type(), F: []Val{v, boolVal(okT)}}
	}
	vc.oblige(st, "nopanic", "nopanic.typeassert:"+what, "interface conversion panics", pos, okT)
	vc.assume(st, okT)
	return v
}

// consumedByAppend: the loaded value's only use is as the first operand of append.
func consumedByAppend(ld *ssa.UnOp) bool {
	refs := ld.Referrers()
	if refs == nil {
		return false
	}
	n := 0
	ok := false
	for _, r := range *refs {
		if _, dbg := r.(*ssa.DebugRef); dbg {
			continue
		}
		n++
		if c, isCall := r.(*ssa.Call); isCall {
			if b, isB := c.Call.Value.(*ssa.Builtin); isB && b.Name() == "append" && c.Call.Args[0] == ld && (len(c.Call.Args) < 2 || c.Call.Args[1] != ld) {
				ok = true
			}
		}
	}
	return n == 1 && ok
}

// allocSlicedOnce: a `new [N]T` whose only uses are element initialisation and this one slicing.
func allocSlicedOnce(a *ssa.Alloc, sl *ssa.Slice) bool {
	refs := a.Referrers()
	if refs == nil {
		return false
	}
	for _, r := range *refs {
		switch r := r.(type) {
		case *ssa.DebugRef:
		case *ssa.Slice:
			if r != sl {
				return false
			}
		case *ssa.IndexAddr:
			rr := r.Referrers()
			if rr == nil {
				return false
			}
			for _, u := range *rr {
				if st, ok := u.(*ssa.Store); !ok || st.Addr != r {
					return false
				}
			}
		default:
			return false
		}
	}
	return true
}

// assumeTypeInv: trusted representation invariants of library types, assumed whenever a
// field of such an object is read.
func (vc *VC) assumeTypeInv(st *State, l *Loc) {
	if l.Kind != locObj || len(l.Path) == 0 {
		return
	}
	switch typeKey(l.Base) {
	case "bytes.Buffer":
		bi, ok1 := fieldIndex(l.Base, "buf")
		oi, ok2 := fieldIndex(l.Base, "off")
		if !ok1 || !ok2 {
			return
		}
		root := &Loc{Kind: locObj, Ref: l.Ref, Base: l.Base}
		buf := vc.load(st, root.extend(pathElem{Field: bi}))
		off := vc.load(st, root.extend(pathElem{Field: oi}))
		vc.assume(st, and(vc.wf(st, buf), sx("bvsle", i64(0), off.S), sx("bvsle", off.S, buf.Sl[2])))
		vc.eng.usedTrusted["type invariant bytes.Buffer: 0 <= off <= len(buf)"] = true
	}
}

// inlineAsserts: `assert at "text": e` / `assume at "text": e` clauses fire before the first
// instruction (per basic block) whose source line contains the text.
func (vc *VC) inlineAsserts(fr *Frame, st *State, ins ssa.Instruction, fired map[*Clause]bool) {
	if !ins.Pos().IsValid() {
		return
	}
	pos := vc.pos(ins.Pos())
	line := vc.eng.lineTextFull(pos)
	vc.fireAnchors(fr, st, line, pos, fired, false)
}

// afterAnchors fires the `after "text"` clauses whose line has just been left.
func (vc *VC) afterAnchors(fr *Frame, st *State, prevLine string, ins ssa.Instruction, fired map[*Clause]bool) {
	pos := vc.pos(instrPos(fr.fn, ins))
	vc.fireAnchors(fr, st, prevLine, pos, fired, true)
}

func (vc *VC) fireAnchors(fr *Frame, st *State, line string, pos token.Position, fired map[*Clause]bool, after bool) {
	for i, cl := range fr.con.Asserts {
		if fired[cl] || cl.After != after || !strings.Contains(line, cl.Match) {
			continue
		}
		fired[cl] = true
		if vc.firedAnchors == nil {
			vc.firedAnchors = map[*Clause]bool{}
		}
		vc.firedAnchors[cl] = true
		env := vc.localEnv(fr, st)
		if strings.HasPrefix(cl.Kind, "ghostset:") {
			name := strings.TrimPrefix(cl.Kind, "ghostset:")
			v := env.eval(cl.Expr)
			old, ok := st.ghost[name]
			if env.err != nil || !ok {
				vc.unsupported("ghostset %s at %q: %v", name, cl.Match, env.err)
				continue
			}
			if v.K == KConst {
				v = vc.convert(st, v, old.T, token.Position{})
			}
			st.ghost[name] = v
			continue
		}
		t := env.evalBool(cl.Expr)
		if env.err != nil {
			vc.unsupported("%s at %q: %v", cl.Kind, cl.Match, env.err)
			if cl.Kind == "assert" {
				vc.oblige(st, "assert", fmt.Sprintf("%s#assert%d", funcKey(fr.fn), i+1), "assertion cannot be evaluated ("+env.err.Error()+"): "+cl.Src, pos, "false")
			}
			continue
		}
		if cl.Kind == "assert" {
			vc.oblige(st, "assert", fmt.Sprintf("%s#assert%d", funcKey(fr.fn), i+1), "assertion at \""+cl.Match+"\": "+cl.Src, pos, t)
			if t != "false" {
				// a literally false assertion (e.g. a lock that is not held) is reported; assuming it would
				// make the rest of the function unreachable and hide everything after it
				vc.assume(st, t)
			}
		} else {
			vc.eng.usedTrusted["assume in "+funcKey(fr.fn)+" at \""+cl.Match+"\": "+cl.Src] = true
			vc.assume(st, t)
		}
	}
}

// selfAppendOnly: every store to the local inside the loop stores the result of append(<load of the same local>, ...).
func selfAppendOnly(a *ssa.Alloc, li *loopInfo) bool {
	refs := a.Referrers()
	if refs == nil {
		return false
	}
	for _, r := range *refs {
		st, ok := r.(*ssa.Store)
		if !ok || st.Addr != a || !li.body[st.Block()] {
			continue
		}
		v := st.Val
		if ct, ok := v.(*ssa.ChangeType); ok {
			v = ct.X
		}
		call, ok := v.(*ssa.Call)
		if !ok {
			return false
		}
		b, ok := call.Call.Value.(*ssa.Builtin)
		if !ok || b.Name() != "append" {
			return false
		}
		ld, ok := call.Call.Args[0].(*ssa.UnOp)
		if !ok || ld.X != a || !consumedByAppend(ld) {
			return false
		}
	}
	return true
}

// appendOperandOnly: a `new [N]T` whose elements are initialised by constant-index stores and
// which is sliced exactly once, the slice being used only as the variadic operand of append.
func appendOperandOnly(a *ssa.Alloc) bool {
	refs := a.Referrers()
	if refs == nil {
		return false
	}
	slices := 0
	for _, r := range *refs {
		switch r := r.(type) {
		case *ssa.DebugRef:
		case *ssa.IndexAddr:
			if _, isConst := r.Index.(*ssa.Const); !isConst {
				return false
			}
			rr := r.Referrers()
			if rr == nil {
				return false
			}
			for _, u := range *rr {
				if st, ok := u.(*ssa.Store); !ok || st.Addr != r {
					return false
				}
			}
		case *ssa.Slice:
			if r.Low != nil || r.High != nil || r.Max != nil {
				return false
			}
			slices++
			sr := r.Referrers()
			if sr == nil {
				return false
			}
			for _, u := range *sr {
				if _, dbg := u.(*ssa.DebugRef); dbg {
					continue
				}
				c, ok := u.(*ssa.Call)
				if !ok {
					return false
				}
				b, ok := c.Call.Value.(*ssa.Builtin)
				if !ok || b.Name() != "append" || len(c.Call.Args) != 2 || c.Call.Args[1] != r || c.Call.Args[0] == r {
					return false
				}
			}
		default:
			return false
		}
	}
	return slices == 1
}

// rootsOutsideLoop: all root values are defined outside the loop body (so they denote the same
// objects in every iteration).
func rootsOutsideLoop(roots []ssa.Value, li *loopInfo) bool {
	for _, r := range roots {
		switch r := r.(type) {
		case *ssa.Parameter, *ssa.Global, *ssa.FreeVar:
		case *ssa.Alloc:
			if li.body[r.Block()] {
				return false
			}
		case ssa.Instruction:
			if li.body[r.Block()] {
				return false
			}
		default:
			return false
		}
	}
	return true
}

func isMapType(t types.Type) bool {
	_, ok := t.Underlying().(*types.Map)
	return ok
}

// anchorInBlocks: some instruction of the given blocks (or of closures created / functions
// inlined there) lies on a source line containing the anchor text.
func (vc *VC) anchorInBlocks(match string, blocks map[*ssa.BasicBlock]bool, depth int) bool {
	for b := range blocks {
		for _, in := range b.Instrs {
			if in.Pos().IsValid() {
				if strings.Contains(vc.eng.lineTextFull(vc.pos(in.Pos())), match) {
					return true
				}
			}
			if depth < 3 {
				var callee *ssa.Function
				switch x := in.(type) {
				case *ssa.MakeClosure:
					callee, _ = x.Fn.(*ssa.Function)
				case *ssa.Call:
					callee = x.Call.StaticCallee()
				}
				if callee != nil && callee.Blocks != nil && callee.Parent() != nil {
					bs := map[*ssa.BasicBlock]bool{}
					for _, cb := range callee.Blocks {
						bs[cb] = true
					}
					if vc.anchorInBlocks(match, bs, depth+1) {
						return true
					}
				}
			}
		}
	}
	return false
}

// guardedMapWrite: the loaded value is a map that is updated or deleted from (a write to the
// structure the field holds, although the field itself is only read).
func guardedMapWrite(ld *ssa.UnOp) bool {
	if _, isMap := ld.Type().Underlying().(*types.Map); !isMap {
		return false
	}
	refs := ld.Referrers()
	if refs == nil {
		return false
	}
	for _, r := range *refs {
		switch r := r.(type) {
		case *ssa.MapUpdate:
			if r.Map == ld {
				return true
			}
		case *ssa.Call:
			if b, ok := r.Call.Value.(*ssa.Builtin); ok && (b.Name() == "delete" || b.Name() == "clear") && len(r.Call.Args) > 0 && r.Call.Args[0] == ld {
				return true
			}
		}
	}
	return false
}
