package main

import (
	"flag"
	"fmt"
	"os"
	"sort"
	"strings"
	"time"
)

func main() {
	if len(os.Args) < 2 {
		fmt.Fprintln(os.Stderr, "usage: govc <dump|verify|check> ...")
		os.Exit(2)
	}
	switch os.Args[1] {
	case "dump":
		cmdDump(os.Args[2:])
	case "verify":
		cmdVerify(os.Args[2:])
	case "check":
		os.Exit(cmdCheck(os.Args[2:]))
	default:
		fmt.Fprintln(os.Stderr, "unknown command", os.Args[1])
		os.Exit(2)
	}
}

func cmdDump(args []string) {
	e, err := loadEngine("/repo", []string{args[0]})
	if err != nil {
		fmt.Fprintln(os.Stderr, err)
		os.Exit(2)
	}
	for _, name := range args[1:] {
		found := false
		for k, fn := range e.funcs {
			if k == name || strings.HasSuffix(k, "."+name) {
				fn.WriteTo(os.Stdout)
				found = true
			}
		}
		if !found {
			fmt.Println("not found:", name)
		}
	}
}

// cmdVerify: developer command. govc verify [-v] [-t secs] [-repo dir] pkgpattern[,pkgpattern] [func ...]
func cmdVerify(args []string) {
	fs := flag.NewFlagSet("verify", flag.ExitOnError)
	verbose := fs.Bool("v", false, "print every obligation")
	timeout := fs.Int("t", 10, "solver timeout (s)")
	repo := fs.String("repo", "/repo", "repository root")
	out := fs.String("out", "/verif/out/dev", "output dir")
	fs.Parse(args)
	rest := fs.Args()
	if len(rest) == 0 {
		fmt.Fprintln(os.Stderr, "need package patterns")
		os.Exit(2)
	}
	t0 := time.Now()
	e, err := loadEngine(*repo, strings.Split(rest[0], ","))
	if err != nil {
		fmt.Fprintln(os.Stderr, err)
		os.Exit(2)
	}
	for _, d := range []string{"/verif/specs", "/verif/trusted"} {
		if err := e.loadSpecDir(d); err != nil {
			fmt.Fprintln(os.Stderr, err)
			os.Exit(2)
		}
	}
	fmt.Printf("loaded in %.1fs; %d contracts\n", time.Since(t0).Seconds(), len(e.cs.Funcs))
	var keys []string
	if len(rest) > 1 {
		for _, f := range rest[1:] {
			matched := false
			for k := range e.cs.Funcs {
				if k == f || strings.HasSuffix(k, "."+f) || strings.HasSuffix(k, "/"+f) {
					keys = append(keys, k)
					matched = true
				}
			}
			if !matched {
				// allow verifying a function without contract (safety only)
				for k := range e.funcs {
					if k == f || strings.HasSuffix(k, "/"+f) {
						keys = append(keys, k)
						matched = true
					}
				}
			}
			if !matched {
				fmt.Println("no such function:", f)
			}
		}
	} else {
		for k := range e.cs.Funcs {
			keys = append(keys, k)
		}
	}
	sort.Strings(keys)
	var vcs []*VC
	for _, k := range keys {
		fn := e.funcs[k]
		if fn == nil {
			fmt.Printf("ORPHAN contract %s\n", k)
			continue
		}
		con := e.cs.Funcs[k]
		if con != nil && con.Flags["trusted"] {
			continue
		}
		vc := e.verifyFunc(fn, con)
		vcs = append(vcs, vc)
	}
	os.RemoveAll(*out)
	dischargeAll(vcs, *out, *timeout, 16)
	tot, ok := 0, 0
	for _, vc := range vcs {
		bad := 0
		for _, o := range vc.obls {
			tot++
			if o.ok() {
				ok++
			} else {
				bad++
			}
		}
		fmt.Printf("%-70s %3d obligations, %d failed", vc.root, len(vc.obls), bad)
		if len(vc.unsup) > 0 {
			fmt.Printf("  UNSUPPORTED(%d)", len(vc.unsup))
		}
		fmt.Println()
		for _, u := range vc.unsup {
			fmt.Println("    unsupported:", u)
		}
		if *verbose {
			for n := range vc.notes {
				fmt.Println("    note:", n)
			}
		}
		for _, o := range vc.obls {
			if *verbose || !o.ok() {
				fmt.Printf("    %-8s %-7s %-7s %5.2fs %s  [%s:%d] %s\n", o.Kind, o.Result, o.Solver, o.Time, o.Name, shortFile(o.Pos.Filename), o.Pos.Line, o.Desc)
			}
		}
	}
	fmt.Printf("total %d obligations, %d discharged, %.1fs\n", tot, ok, time.Since(t0).Seconds())
}
