package main

// Calls: builtins, intrinsics (trusted models of library functions),
// contract application, inlining, havoc.

import (
	"fmt"
	"go/token"
	"go/types"
	"sort"
	"strings"

	"golang.org/x/tools/go/ssa"
)

func funcKey(fn *ssa.Function) string {
	if fn.Parent() != nil {
		// anonymous function: parent$N
		return funcKey(fn.Parent()) + "$" + strings.TrimPrefix(fn.Name(), fn.Parent().Name()+"$")
	}
	pkg := ""
	if fn.Pkg != nil {
		pkg = fn.Pkg.Pkg.Path()
	} else if fn.Object() != nil && fn.Object().Pkg() != nil {
		pkg = fn.Object().Pkg().Path()
	}
	if recv := fn.Signature.Recv(); recv != nil {
		t := recv.Type()
		if p, ok := t.(*types.Pointer); ok {
			t = p.Elem()
		}
		if n, ok := t.(*types.Named); ok {
			if n.Obj().Pkg() != nil {
				pkg = n.Obj().Pkg().Path()
			}
			return pkg + "." + n.Obj().Name() + "." + fn.Name()
		}
	}
	return pkg + "." + fn.Name()
}

type intrinsic func(vc *VC, fr *Frame, st *State, args []Val, c *ssa.CallCommon, pos token.Position) Val

var intrinsics map[string]intrinsic
var intrinsicMods = map[string][][2]string{}

func init() {
	intrinsics = map[string]intrinsic{
		"fmt.Errorf":              intrNewError,
		"errors.New":              intrNewError,
		"fmt.Sprintf":             intrFreshString,
		"fmt.Sprint":              intrFreshString,
		"fmt.Sprintln":            intrFreshString,
		"strconv.Itoa":            intrFreshString,
		"bytes.Equal":             intrBytesEqual,
		"bytes.Compare":           intrBytesCompare,
		"strings.ToLower":         intrStrFunc("strings.ToLower"),
		"strings.ToUpper":         intrStrFunc("strings.ToUpper"),
		"strings.TrimSpace":       intrStrFunc("strings.TrimSpace"),
		"hash/crc32.ChecksumIEEE": intrCRC,
		"time.Now":                intrHavocResult,
		"encoding/binary.Read":    intrBinaryRead,
		"sort.Search":             intrSortSearch,
		"sort.Slice":              intrSortSlice,
		"github.com/dgraph-io/badger/v3.DB.Update": intrBadgerTxn,
		"github.com/dgraph-io/badger/v3.DB.View":   intrBadgerTxn,
		"time.Since":                               intrHavocResult,
		"runtime.GOMAXPROCS":                       intrHavocResult,
	}
}

func intrNewError(vc *VC, fr *Frame, st *State, args []Val, c *ssa.CallCommon, pos token.Position) Val {
	r := vc.alloc(st, "err")
	tag := vc.sc.fresh("errtag", sortRef)
	vc.sc.assert(sx(">", tag, "0"))
	return Val{K: KIface, T: c.Signature().Results().At(0).Type(), If: [2]string{tag, r}}
}

func intrFreshString(vc *VC, fr *Frame, st *State, args []Val, c *ssa.CallCommon, pos token.Position) Val {
	vc.declStr()
	s := vc.sc.fresh("sprintf", sortStr)
	vc.sc.assert(and(sx("bvsle", i64(0), sx("s.len", s)), sx("bvsle", sx("s.len", s), i64(1<<40))))
	return Val{K: KScalar, T: types.Typ[types.String], S: s}
}

func intrHavocResult(vc *VC, fr *Frame, st *State, args []Val, c *ssa.CallCommon, pos token.Position) Val {
	return vc.havocResults(st, c.Signature())
}

func intrStrFunc(name string) intrinsic {
	return func(vc *VC, fr *Frame, st *State, args []Val, c *ssa.CallCommon, pos token.Position) Val {
		vc.declStr()
		fn := quote(name)
		vc.sc.declareFun(fn, []string{sortStr}, sortStr)
		r := sx(fn, args[0].S)
		vc.sc.assert(and(sx("bvsle", i64(0), sx("s.len", r)), sx("bvsle", sx("s.len", r), i64(1<<40))))
		return Val{K: KScalar, T: types.Typ[types.String], S: r}
	}
}

func intrCRC(vc *VC, fr *Frame, st *State, args []Val, c *ssa.CallCommon, pos token.Position) Val {
	// crc32 is an (uninterpreted) function of the byte sequence: model as a function of
	// the array contents, offset and length.
	b := args[0]
	h := vc.heapGet(st, elemHeap(types.Typ[types.Uint8], ""), arraySort(sortRef, arraySort(sortIdx, bvSort(8))))
	vc.sc.declareFun("crc32", []string{arraySort(sortIdx, bvSort(8)), sortIdx, sortIdx}, bvSort(32))
	return Val{K: KScalar, T: types.Typ[types.Uint32], S: sx("crc32", sel(h, b.Sl[0]), b.Sl[1], b.Sl[2])}
}

func (vc *VC) byteHeap(st *State) string {
	return vc.heapGet(st, elemHeap(types.Typ[types.Uint8], ""), arraySort(sortRef, arraySort(sortIdx, bvSort(8))))
}

func intrBytesEqual(vc *VC, fr *Frame, st *State, args []Val, c *ssa.CallCommon, pos token.Position) Val {
	a, b := args[0], args[1]
	h := vc.byteHeap(st)
	r := vc.sc.fresh("bytes.eq", sortBool)
	k := vc.sc.fresh("bytes.eq.k", sortIdx)
	at := func(s Val, i string) string { return sel(sel(h, s.Sl[0]), elemIdx(s.Sl[1], i)) }
	i := "i!q"
	all := fmt.Sprintf("(forall ((%s %s)) (=> (and (bvsle %s %s) (bvslt %s %s)) (= %s %s)))", i, sortIdx, i64(0), i, i, a.Sl[2], at(a, i), at(b, i))
	vc.sc.assert(implies(r, and(eq(a.Sl[2], b.Sl[2]), all)))
	vc.sc.assert(implies(not(r), or(not(eq(a.Sl[2], b.Sl[2])), and(sx("bvsle", i64(0), k), sx("bvslt", k, a.Sl[2]), not(eq(at(a, k), at(b, k)))))))
	return boolVal(r)
}

// bytes.Compare: result in {-1,0,1}; characterised through a first-difference witness.
func intrBytesCompare(vc *VC, fr *Frame, st *State, args []Val, c *ssa.CallCommon, pos token.Position) Val {
	a, b := args[0], args[1]
	h := vc.byteHeap(st)
	r := vc.sc.fresh("bytes.cmp", sortIdx)
	d := vc.sc.fresh("bytes.cmp.d", sortIdx) // first index where they differ or min(len)
	at := func(s Val, i string) string { return sel(sel(h, s.Sl[0]), elemIdx(s.Sl[1], i)) }
	la, lb := a.Sl[2], b.Sl[2]
	i := "i!q"
	common := fmt.Sprintf("(forall ((%s %s)) (=> (and (bvsle %s %s) (bvslt %s %s)) (= %s %s)))", i, sortIdx, i64(0), i, i, d, at(a, i), at(b, i))
	vc.sc.assert(and(sx("bvsle", i64(0), d), sx("bvsle", d, la), sx("bvsle", d, lb), common))
	inBoth := and(sx("bvslt", d, la), sx("bvslt", d, lb))
	vc.sc.assert(implies(inBoth, not(eq(at(a, d), at(b, d)))))
	vc.sc.assert(implies(not(inBoth), or(eq(d, la), eq(d, lb))))
	lt := or(and(inBoth, sx("bvult", at(a, d), at(b, d))), and(not(inBoth), sx("bvslt", la, lb)))
	gt := or(and(inBoth, sx("bvugt", at(a, d), at(b, d))), and(not(inBoth), sx("bvsgt", la, lb)))
	vc.sc.assert(eq(r, ite(lt, bvInt(-1, 64), ite(gt, i64(1), i64(0)))))
	// the result is a function of the two byte sequences: two evaluations over unchanged contents agree
	// by congruence (no quantifier reasoning needed)
	cs := arraySort(sortIdx, bvSort(8))
	vc.sc.declareFun("bytes.cmpf", []string{cs, sortIdx, sortIdx, cs, sortIdx, sortIdx}, sortIdx)
	vc.sc.assert(eq(r, sx("bytes.cmpf", sel(h, a.Sl[0]), a.Sl[1], la, sel(h, b.Sl[0]), b.Sl[1], lb)))
	return intVal(r)
}

func (vc *VC) havocResults(st *State, sig *types.Signature) Val {
	res := sig.Results()
	switch res.Len() {
	case 0:
		return Val{K: KTuple, T: res}
	case 1:
		v, _ := vc.symbolic(res.At(0).Type(), "ret")
		vc.assume(st, vc.wf(st, v))
		return v
	}
	v, _ := vc.symbolic(res, "ret")
	vc.assume(st, vc.wf(st, v))
	return v
}

func (vc *VC) call(fr *Frame, st *State, c *ssa.CallCommon, ins ssa.Instruction, pos token.Position) Val {
	fn := fr.fn
	var args []Val
	for _, a := range c.Args {
		args = append(args, vc.value(fr, a))
	}
	what := vc.srcText(fn, ins)
	if b, ok := c.Value.(*ssa.Builtin); ok {
		return vc.builtin(fr, st, b, args, c, pos, what)
	}
	if c.IsInvoke() {
		recv := vc.value(fr, c.Value)
		return vc.invoke(fr, st, recv, c, args, pos, what)
	}
	callee := c.StaticCallee()
	var free []Val
	if callee == nil {
		// dynamic call through a function value
		fv := vc.value(fr, c.Value)
		if fv.Clo != nil {
			callee = fv.Clo.Fn.(*ssa.Function)
			free = fv.Clo.Bindings
		}
	} else if mc, ok := c.Value.(*ssa.MakeClosure); ok {
		fv := vc.value(fr, mc)
		if fv.Clo != nil {
			free = fv.Clo.Bindings
		}
	}
	if callee == nil {
		vc.note("%s: dynamic call havocs heap (%s)", funcKey(fn), what)
		vc.havocAllHeap(st)
		return vc.havocResults(st, c.Signature())
	}
	key := funcKey(callee)
	if isLockFunc(key) {
		vc.lockCall(fr, st, c, key, pos)
		return Val{K: KTuple, T: types.NewTuple()}
	}
	vc.lockProtocolCheck(fr, st, c, callee, key, pos)
	if vc.eng.isNoEffect(key) {
		return vc.havocResults(st, c.Signature())
	}
	if in, ok := intrinsics[key]; ok {
		vc.eng.usedTrusted[key] = true
		return in(vc, fr, st, args, c, pos)
	}
	if h := vc.ghostCall(fr, st, key, callee, args, c, pos); h != nil {
		return *h
	}
	if con := vc.eng.cs.Funcs[key]; con != nil && !con.Flags["inline"] {
		return vc.applyContract(fr, st, callee, con, args, pos, what)
	}
	if callee.Blocks != nil && fr.depth < maxInlineDepth && vc.canInline(callee) {
		ccon := vc.eng.cs.Funcs[key]
		if ccon == nil && isNestedIn(callee, fr.fn) {
			ccon = fr.con // anchors (assert at / ghostset at) of the enclosing function reach into its closures
		}
		res, out := vc.execFunc(callee, args, free, st, fr.depth+1, ccon, false)
		*st = *out
		return packResults(callee.Signature, res)
	}
	vc.note("%s: call to %s without contract havocs heap", funcKey(fn), key)
	vc.havocAllHeap(st)
	return vc.havocResults(st, c.Signature())
}

func packResults(sig *types.Signature, res []Val) Val {
	switch len(res) {
	case 0:
		return Val{K: KTuple, T: sig.Results()}
	case 1:
		return res[0]
	}
	return Val{K: KTuple, T: sig.Results(), F: res}
}

// canInline: loop-free bodies (or loops that carry invariants in a contract marked inline).
var inlinePkgs = map[string]bool{"encoding/binary": true, "bytes": true, "math": true, "math/bits": true, "sort": true, "strings": true, "errors": true, "unicode/utf8": true}

func (vc *VC) canInline(fn *ssa.Function) bool {
	if v, ok := vc.eng.inlineOK[fn]; ok {
		return v
	}
	ok := true
	if p := pkgOf(fn); p != nil && !strings.HasPrefix(p.Path(), modPath) && !inlinePkgs[p.Path()] {
		ok = false
	}
	loops := findLoops(fn)
	if len(loops) > 0 {
		con := vc.eng.cs.Funcs[funcKey(fn)]
		if con == nil || !con.Flags["inline"] {
			ok = false
		}
	}
	// recursion guard
	for _, b := range fn.Blocks {
		for _, in := range b.Instrs {
			if c, isCall := in.(*ssa.Call); isCall {
				if c.Call.StaticCallee() == fn {
					ok = false
				}
			}
		}
	}
	vc.eng.inlineOK[fn] = ok
	return ok
}

func (vc *VC) builtin(fr *Frame, st *State, b *ssa.Builtin, args []Val, c *ssa.CallCommon, pos token.Position, what string) Val {
	switch b.Name() {
	case "len":
		return vc.lenOf(st, args[0])
	case "cap":
		return vc.capOf(st, args[0])
	case "append":
		if args[1].K == KSlice && args[1].Sl[0] == "0" && args[1].Sl[2] == i64(0) {
			return args[0]
		}
		if args[0].K == KSlice && args[0].Own && singleUse(c.Args[0]) {
			r := vc.appendOwned(st, args[0], args[1], pos)
			if r.K != KBad && args[0].From != nil {
				st.cells[args[0].From] = bad(args[0].T, "slice was consumed by append (moved)")
			}
			return r
		}
		return vc.appendOp(st, args[0], args[1], pos)
	case "copy":
		return vc.copyOp(st, args[0], args[1], pos)
	case "delete":
		vc.mapDelete(st, args[0], args[1], c.Args[0].Type().Underlying().(*types.Map))
		return Val{K: KTuple, T: types.NewTuple()}
	case "print", "println":
		return Val{K: KTuple, T: types.NewTuple()}
	case "ssa:deferstack":
		return Val{K: KRef, T: b.Type(), S: "0"}
	case "ssa:wrapnilchk":
		return args[0]
	case "min", "max":
		r := args[0]
		for _, a := range args[1:] {
			lt := vc.binop(st, token.LSS, a, r, pos)
			if b.Name() == "max" {
				lt = vc.binop(st, token.GTR, a, r, pos)
			}
			r = Val{K: KScalar, T: r.T, S: ite(lt.S, a.S, r.S)}
		}
		return r
	case "recover":
		return vc.zero(types.NewInterfaceType(nil, nil))
	case "close":
		return Val{K: KTuple, T: types.NewTuple()}
	}
	vc.unsupported("builtin %s", b.Name())
	return bad(c.Signature().Results(), "builtin "+b.Name())
}

// invoke: interface method call.
func (vc *VC) invoke(fr *Frame, st *State, recv Val, c *ssa.CallCommon, args []Val, pos token.Position, what string) Val {
	m := c.Method
	if recv.K == KIface {
		vc.oblige(st, "nopanic", "nopanic.nil:"+what, "method call on nil interface", pos, not(eq(recv.If[0], "0")))
	}
	key := ifaceMethodKey(c)
	// devirtualisation: the interface value was built in this execution from a value of a known
	// concrete type (its tag is a literal): call that type's method
	if recv.K == KIface {
		if ct, known := vc.tagTypes[recv.If[0]]; known {
			if callee := vc.eng.prog.LookupMethod(ct, m.Pkg(), m.Name()); callee != nil && callee.Blocks != nil {
				ckey := funcKey(callee)
				rv := vc.unbox(recv.If[1], ct)
				cargs := append([]Val{rv}, args...)
				if con := vc.eng.cs.Funcs[ckey]; con != nil && !con.Flags["inline"] {
					return vc.applyContract(fr, st, callee, con, cargs, pos, what)
				}
				if fr.depth < maxInlineDepth && vc.canInline(callee) {
					res, out := vc.execFunc(callee, cargs, nil, st, fr.depth+1, nil, false)
					*st = *out
					return packResults(callee.Signature, res)
				}
			}
		}
	}
	if vc.eng.pureMethods[key] && recv.K == KIface {
		return vc.pureMethodCall(st, recv, key, m, args)
	}
	if m.Name() == "Error" || m.Name() == "String" {
		return intrFreshString(vc, fr, st, nil, c, pos)
	}
	if vc.eng.isStoreMethod(c) {
		vc.eng.usedTrusted["storage engine method "+key+" does not modify the program heap"] = true
		nn := vc.sc.fresh("next", sortRef)
		vc.sc.assert(sx(">=", nn, st.next))
		st.next = nn
		return vc.havocResults(st, m.Type().(*types.Signature))
	}
	vc.note("%s: interface call %s havocs heap", funcKey(fr.fn), key)
	vc.havocAllHeap(st)
	return vc.havocResults(st, m.Type().(*types.Signature))
}

func ifaceMethodKey(c *ssa.CallCommon) string {
	t := c.Value.Type()
	name := types.TypeString(t, nil)
	return name + "." + c.Method.Name()
}

// ---------- contracts ----------

func (vc *VC) contractEnv(callee *ssa.Function, args []Val, st, old *State, results []Val) *Env {
	vars := map[string]Val{}
	for i, p := range callee.Params {
		vars[p.Name()] = args[i]
	}
	res := callee.Signature.Results()
	for i := 0; i < res.Len(); i++ {
		if i < len(results) {
			vars[fmt.Sprintf("result%d", i)] = results[i]
			if n := res.At(i).Name(); n != "" && n != "_" {
				if _, clash := vars[n]; !clash {
					vars[n] = results[i]
				}
			}
		}
	}
	if len(results) > 0 {
		vars["result"] = results[0]
		last := results[len(results)-1]
		if last.K == KIface {
			if _, has := vars["err"]; !has {
				vars["err"] = last
			}
		}
	}
	qn := 0
	return &Env{vc: vc, st: st, old: old, vars: vars, pkg: pkgOf(callee), qn: &qn}
}

func (vc *VC) applyContract(fr *Frame, st *State, callee *ssa.Function, con *Contract, args []Val, pos token.Position, what string) Val {
	key := funcKey(callee)
	vc.eng.usedContracts[key] = true
	for _, a := range args {
		if a.K == KBad {
			vc.unsupported("%s: argument of call to %s is unsupported (%s)", funcKey(fr.fn), key, a.Why)
		}
	}
	pre := st.clone()
	env := vc.contractEnv(callee, args, st, pre, nil)
	for i, r := range con.Requires {
		t := env.evalBool(r.Expr)
		if env.err != nil {
			vc.unsupported("requires %q of %s: %v", r.Src, key, env.err)
			vc.oblige(st, "requires", fmt.Sprintf("%s#call:%s.requires%d", funcKey(fr.fn), shortKey(key), i+1), "precondition of "+key+" cannot be evaluated ("+env.err.Error()+"): "+r.Src, pos, "false")
			env.err = nil
			continue
		}
		vc.oblige(st, "requires", fmt.Sprintf("%s#call:%s.requires%d", funcKey(fr.fn), shortKey(key), i+1), "precondition of "+key+": "+r.Src, pos, t)
	}
	// havoc modifies
	if !con.Flags["pure"] {
		for _, m := range con.Modifies {
			vc.havocModifies(st, env, callee, m)
		}
	}
	// the callee may allocate: advance the allocation watermark
	{
		nn := vc.sc.fresh("next", sortRef)
		vc.sc.assert(sx(">=", nn, st.next))
		st.next = nn
	}
	// results
	var results []Val
	res := callee.Signature.Results()
	if con.Flags["pure"] && len(callee.Params) > 0 && allRepresentable(args) {
		// deterministic: results are uninterpreted functions of the arguments
		var sorts, terms []string
		for _, a := range args {
			f, _ := flatten(a)
			for i, lf := range leavesOf(a.T) {
				sorts = append(sorts, lf.sort)
				terms = append(terms, f[i])
			}
		}
		for i := 0; i < res.Len(); i++ {
			ls := leavesOf(res.At(i).Type())
			out := make([]string, len(ls))
			for j, lf := range ls {
				fn := quote(fmt.Sprintf("fn.%s.r%d%s", key, i, lf.path))
				vc.sc.declareFun(fn, sorts, lf.sort)
				out[j] = sx(fn, terms...)
			}
			results = append(results, unflatten(res.At(i).Type(), out))
		}
	} else {
		for i := 0; i < res.Len(); i++ {
			v, _ := vc.symbolic(res.At(i).Type(), "r."+callee.Name())
			results = append(results, v)
		}
	}
	for _, r := range results {
		vc.assume(st, vc.wf(st, r))
	}
	post := vc.contractEnv(callee, args, st, pre, results)
	if vc.callsHavoc {
		return packResults(callee.Signature, results)
	}
	for _, e := range con.Ensures {
		t := post.evalBool(e.Expr)
		if post.err != nil {
			// a callee postcondition that cannot be evaluated here is simply not available (weaker, sound)
			vc.note("ensures %q of %s not usable at this call: %v", e.Src, key, post.err)
			post.err = nil
			continue
		}
		vc.assume(st, t)
	}
	return packResults(callee.Signature, results)
}

func allRepresentable(args []Val) bool {
	for _, a := range args {
		if a.K == KBad || a.T == nil {
			return false
		}
		f, ok := flatten(a)
		if !ok || len(f) != len(leavesOf(a.T)) {
			return false
		}
	}
	return true
}

func shortKey(k string) string {
	if i := strings.LastIndex(k, "/"); i >= 0 {
		return k[i+1:]
	}
	return k
}

// havocModifies: entries "*", "x[*]", "x.f", "x.*", "ghost g".
func (vc *VC) havocModifies(st *State, env *Env, callee *ssa.Function, m string) {
	switch {
	case m == "*":
		vc.havocAllHeap(st)
		return
	case strings.HasPrefix(m, "*\\"):
		// everything may change except the contents of pre-existing objects in the named heap variables
		var keep []string
		for _, k := range strings.Split(m[2:], "\\") {
			keep = append(keep, strings.TrimSpace(k))
		}
		type saved struct{ name, sort, term string }
		var olds []saved
		for _, k := range keep {
			if srt, ok := vc.heapSorts[k]; ok {
				olds = append(olds, saved{k, srt, vc.heapGet(st, k, srt)})
			}
		}
		oldNext := st.next
		vc.havocAllHeap(st)
		for _, o := range olds {
			nh := vc.heapGet(st, o.name, o.sort)
			vc.sc.assert(fmt.Sprintf("(forall ((r!q Int)) (! (=> (< r!q %s) (= (select %s r!q) (select %s r!q))) :pattern ((select %s r!q))))", oldNext, nh, o.term, nh))
		}
		return
	case strings.HasPrefix(m, "heap "):
		// a whole heap variable (all objects' values of one field / element type)
		vc.havocHeapVar(st, strings.TrimSpace(m[5:]))
		return
	case strings.HasPrefix(m, "ghost "):
		g := strings.TrimSpace(m[6:])
		if old, ok := st.ghost[g]; ok {
			nv, _ := vc.symbolic(old.T, "g."+g)
			st.ghost[g] = nv
		}
		return
	case strings.HasSuffix(m, "[*]") || strings.HasSuffix(m, "[*cap]"):
		wholeCap := strings.HasSuffix(m, "[*cap]")
		e, err := parseSpecExpr(strings.TrimSuffix(strings.TrimSuffix(m, "[*]"), "[*cap]"))
		if err != nil {
			vc.unsupported("modifies %q: %v", m, err)
			vc.havocAllHeap(st)
			return
		}
		v := arrayAsSlice(env.eval(e))
		if v.K == KRef && v.T != nil {
			if mt, ok := v.T.Underlying().(*types.Map); ok {
				// contents of one map
				mh := vc.mapHeaps(mt)
				var mhn []string
				for hn := range mh {
					mhn = append(mhn, hn)
				}
				sort.Strings(mhn)
				for _, hn := range mhn {
					hs := mh[hn]
					h := vc.heapGet(st, hn, hs)
					_, args, _ := splitArgs(hs)
					vc.heapSet(st, hn, hs, vc.sc.define("h", hs, store(h, v.S, vc.sc.fresh("mod", args[1]))))
				}
				return
			}
		}
		if v.K != KSlice {
			vc.unsupported("modifies %q: not a slice", m)
			vc.havocAllHeap(st)
			return
		}
		et := v.T.Underlying().(*types.Slice).Elem()
		if wholeCap {
			v.Sl[2] = v.Sl[3]
		}
		for _, lf := range leavesOf(et) {
			if lf.bad {
				continue
			}
			hn := elemHeap(et, lf.path)
			inner := arraySort(sortIdx, lf.sort)
			hs := arraySort(sortRef, inner)
			h := vc.heapGet(st, hn, hs)
			na := vc.sc.fresh("mod", inner)
			// only indices inside [off, off+len) may change
			i := "i!q"
			vc.sc.assert(fmt.Sprintf("(forall ((%s %s)) (! (=> (not (and (bvsle %s %s) (bvslt %s %s))) (= (select %s %s) (select %s %s))) :pattern ((select %s %s))))",
				i, sortIdx, v.Sl[1], i, i, bvAdd(v.Sl[1], v.Sl[2]), na, i, sel(h, v.Sl[0]), i, na, i))
			vc.heapSet(st, hn, hs, vc.sc.define("h", hs, store(h, v.Sl[0], na)))
		}
		return
	}
	if i := strings.LastIndexByte(m, '.'); i > 0 {
		e, err := parseSpecExpr(m[:i])
		if err == nil {
			v := env.eval(e)
			f := m[i+1:]
			if v.K == KPtr && v.L != nil && v.L.Kind == locObj && len(v.L.Path) == 0 {
				t := v.L.Base
				if stt, ok := t.Underlying().(*types.Struct); ok {
					for k := 0; k < stt.NumFields(); k++ {
						if f != "*" && stt.Field(k).Name() != f {
							continue
						}
						for _, lf := range leavesOf(stt.Field(k).Type()) {
							if lf.bad {
								continue
							}
							hn := fieldHeap(t, "."+stt.Field(k).Name()+lf.path)
							hs := arraySort(sortRef, lf.sort)
							h := vc.heapGet(st, hn, hs)
							vc.heapSet(st, hn, hs, vc.sc.define("h", hs, store(h, v.L.Ref, vc.sc.fresh("mod", lf.sort))))
						}
					}
					return
				}
				if f == "*" {
					// pointer to a non-struct value (e.g. *[]T): the whole pointee
					for _, lf := range leavesOf(t) {
						if lf.bad {
							continue
						}
						hn := fieldHeap(t, lf.path)
						hs := arraySort(sortRef, lf.sort)
						h := vc.heapGet(st, hn, hs)
						vc.heapSet(st, hn, hs, vc.sc.define("h", hs, store(h, v.L.Ref, vc.sc.fresh("mod", lf.sort))))
					}
					return
				}
			}
		}
	}
	vc.unsupported("modifies %q not understood; havocking heap", m)
	vc.havocAllHeap(st)
}

// pureMethodCall: a pure, stable interface method is an uninterpreted function of
// (dynamic type, payload, scalar arguments).
func (vc *VC) pureMethodCall(st *State, recv Val, key string, m *types.Func, args []Val) Val {
	vc.eng.usedTrusted["iface:"+key] = true
	res := m.Type().(*types.Signature).Results()
	sorts := []string{sortRef, sortRef}
	terms := []string{recv.If[0], recv.If[1]}
	for _, a := range args {
		f, ok := flatten(a)
		if !ok || a.T == nil {
			continue
		}
		for i, lf := range leavesOf(a.T) {
			sorts = append(sorts, lf.sort)
			terms = append(terms, f[i])
		}
	}
	if res.Len() == 0 {
		return Val{K: KTuple, T: res}
	}
	var rt types.Type = res
	if res.Len() == 1 {
		rt = res.At(0).Type()
	}
	ls := leavesOf(rt)
	out := make([]string, len(ls))
	for i, lf := range ls {
		fn := quote("im." + key + lf.path)
		vc.sc.declareFun(fn, sorts, lf.sort)
		out[i] = sx(fn, terms...)
	}
	v := unflatten(rt, out)
	if st != nil {
		vc.assume(st, vc.wf(st, v))
	}
	return v
}

func singleUse(v ssa.Value) bool {
	refs := v.Referrers()
	if refs == nil {
		return false
	}
	n := 0
	for _, r := range *refs {
		if _, dbg := r.(*ssa.DebugRef); dbg {
			continue
		}
		n++
	}
	return n == 1
}

// binary.Read(r, order, &x) for a *bytes.Buffer reader and a pointer to a fixed-size integer:
// trusted model of the library's fast path (io.ReadFull over Buffer.Read).
//
//	avail == 0      -> err != nil (io.EOF), nothing consumed, x unchanged
//	0 < avail < n   -> err != nil (io.ErrUnexpectedEOF), buffer drained, x unchanged
//	avail >= n      -> x = decode(buf[off:off+n]), off += n, err == nil
func intrBinaryRead(vc *VC, fr *Frame, st *State, args []Val, c *ssa.CallCommon, pos token.Position) Val {
	errT := c.Signature().Results().At(0).Type()
	fallback := func(why string) Val {
		vc.note("binary.Read not modelled here (%s): heap havocked", why)
		vc.havocAllHeap(st)
		v, _ := vc.symbolic(errT, "err")
		vc.assume(st, vc.wf(st, v))
		return v
	}
	r, order, data := args[0], args[1], args[2]
	if r.K != KIface || data.K != KIface {
		return fallback("non-interface arguments")
	}
	rt, ok := vc.tagTypes[r.If[0]]
	if !ok || typeKey(rt) != "*bytes.Buffer" {
		return fallback("reader is not a known *bytes.Buffer")
	}
	dt, ok := vc.tagTypes[data.If[0]]
	if !ok {
		return fallback("unknown data type")
	}
	pt, ok := dt.Underlying().(*types.Pointer)
	if !ok {
		return fallback("data is not a pointer")
	}
	w, _, isInt := isIntType(pt.Elem())
	if !isInt {
		return fallback("data does not point to a fixed-size integer")
	}
	ot, ok := vc.tagTypes[order.If[0]]
	little := ok && strings.HasSuffix(typeKey(ot), "littleEndian")
	big := ok && strings.HasSuffix(typeKey(ot), "bigEndian")
	if !little && !big {
		return fallback("unknown byte order")
	}
	bufT := rt.Underlying().(*types.Pointer).Elem()
	bl := &Loc{Kind: locObj, Ref: r.If[1], Base: bufT}
	bi, ok1 := fieldIndex(bufT, "buf")
	oi, ok2 := fieldIndex(bufT, "off")
	if !ok1 || !ok2 {
		return fallback("bytes.Buffer layout")
	}
	buf := vc.load(st, bl.extend(pathElem{Field: bi}))
	off := vc.load(st, bl.extend(pathElem{Field: oi}))
	vc.assume(st, vc.wf(st, buf))
	n := i64(int64(w / 8))
	avail := vc.sc.define("avail", sortIdx, bvSub(buf.Sl[2], off.S))
	vc.assume(st, and(sx("bvsle", i64(0), off.S), sx("bvsle", off.S, buf.Sl[2])))
	okc := vc.sc.define("readok", sortBool, sx("bvsge", avail, n))
	h := vc.byteHeap(st)
	var bs []string
	for k := 0; k < w/8; k++ {
		bs = append(bs, sel(sel(h, buf.Sl[0]), elemIdx(buf.Sl[1], bvAdd(off.S, i64(int64(k))))))
	}
	if little {
		for l, rr := 0, len(bs)-1; l < rr; l, rr = l+1, rr-1 {
			bs[l], bs[rr] = bs[rr], bs[l]
		}
	}
	val := bs[0]
	if len(bs) > 1 {
		val = sx("concat", bs...)
	}
	dl := &Loc{Kind: locObj, Ref: data.If[1], Base: pt.Elem()}
	old := vc.load(st, dl)
	vc.storeTo(st, dl, Val{K: KScalar, T: pt.Elem(), S: ite(okc, val, old.S)})
	newOff := ite(okc, bvAdd(off.S, n), buf.Sl[2])
	vc.storeTo(st, bl.extend(pathElem{Field: oi}), Val{K: KScalar, T: off.T, S: newOff})
	etag := vc.sc.fresh("errtag", sortRef)
	vc.sc.assert(sx(">", etag, "0"))
	eref := vc.alloc(st, "err")
	return Val{K: KIface, T: errT, If: [2]string{ite(okc, "0", etag), ite(okc, "0", eref)}}
}

// arrayAsSlice views a pointer to a heap array as the slice of all its elements.
func arrayAsSlice(v Val) Val {
	if v.K == KPtr && v.L != nil && v.L.Kind == locArr && len(v.L.Path) == 0 {
		at := v.L.Base.Underlying().(*types.Array)
		n := i64(at.Len())
		return Val{K: KSlice, T: types.NewSlice(at.Elem()), Sl: [4]string{v.L.Ref, i64(0), n, n}}
	}
	return v
}

func isNestedIn(f, outer *ssa.Function) bool {
	for p := f.Parent(); p != nil; p = p.Parent() {
		if p == outer {
			return true
		}
	}
	return false
}

// (*badger.DB).Update(fn) / View(fn): trusted model of the embedded store's transaction API.
// fn is called exactly once with a fresh transaction; everything fn does through that
// transaction becomes durable atomically iff fn returns nil and the commit succeeds. The ghost
// counter `txns` (if declared) counts transactions started.
func intrBadgerTxn(vc *VC, fr *Frame, st *State, args []Val, c *ssa.CallCommon, pos token.Position) Val {
	errT := c.Signature().Results().At(0).Type()
	cl := args[len(args)-1]
	if cl.Clo == nil {
		vc.note("badger transaction with a non-literal function: heap havocked")
		vc.havocAllHeap(st)
		return vc.havocResults(st, c.Signature())
	}
	fn := cl.Clo.Fn.(*ssa.Function)
	txnT := fn.Signature.Params().At(0).Type()
	txn := ptrFromRef(txnT, vc.alloc(st, "txn"))
	if g, ok := st.ghost["txns"]; ok && g.K == KScalar {
		st.ghost["txns"] = Val{K: KScalar, T: g.T, S: bvAdd(g.S, bvInt(1, 64))}
	}
	var ccon *Contract
	if isNestedIn(fn, fr.fn) || fn.Parent() == fr.fn {
		ccon = fr.con
	}
	res, out := vc.execFunc(fn, []Val{txn}, cl.Clo.Bindings, st, fr.depth+1, ccon, false)
	*st = *out
	ferr := res[0]
	// commit may fail even if fn succeeded
	ctag := vc.sc.fresh("commiterr", sortRef)
	vc.sc.assert(sx(">=", ctag, "0"))
	cref := vc.alloc(st, "err")
	if ferr.K != KIface {
		return vc.havocResults(st, c.Signature())
	}
	if g, ok := st.ghost["committed"]; ok && g.K == KScalar {
		st.ghost["committed"] = boolVal(and(eq(ferr.If[0], "0"), eq(ctag, "0")))
	}
	return Val{K: KIface, T: errT, If: [2]string{ite(eq(ferr.If[0], "0"), ctag, ferr.If[0]), ite(eq(ferr.If[0], "0"), ite(eq(ctag, "0"), "0", cref), ferr.If[1])}}
}

// sort.Search(n, pred): what binary search guarantees for ANY predicate (no monotonicity assumed):
// the result i is in [0, n], pred(i) holds if i < n, and pred(i-1) does not hold if i > 0.
// The predicate closure is evaluated symbolically at i and at i-1 (on copies of the state; a
// predicate with side effects is outside this model).
func intrSortSearch(vc *VC, fr *Frame, st *State, args []Val, c *ssa.CallCommon, pos token.Position) Val {
	n := args[0]
	cl := args[1]
	i := vc.sc.fresh("search.i", sortIdx)
	vc.assume(st, and(sx("bvsle", i64(0), i), sx("bvsle", i, n.S)))
	if cl.Clo == nil {
		vc.note("sort.Search with a non-literal predicate: result only known to be in [0, n]")
		return intVal(i)
	}
	fn := cl.Clo.Fn.(*ssa.Function)
	var ccon *Contract
	if isNestedIn(fn, fr.fn) {
		ccon = fr.con
	}
	evalAt := func(idx string, guard string) string {
		s2 := st.clone()
		vc.assume(s2, guard)
		res, _ := vc.execFunc(fn, []Val{intVal(idx)}, cl.Clo.Bindings, s2, fr.depth+1, ccon, false)
		if len(res) != 1 || res[0].K != KScalar {
			return vc.sc.fresh("pred", sortBool)
		}
		return vc.sc.define("pred", sortBool, res[0].S)
	}
	inRange := sx("bvslt", i, n.S)
	bi := evalAt(i, inRange)
	vc.assume(st, implies(inRange, bi))
	pos0 := sx("bvsgt", i, i64(0))
	bp := evalAt(bvSub(i, i64(1)), pos0)
	vc.assume(st, implies(pos0, not(bp)))
	return intVal(i)
}

// sort.Slice(x, less): the elements of slice x are rearranged (modelled: arbitrary new contents of the
// window, same header) such that afterwards no later element is `less` than an earlier one. The
// ordering fact is obtained by executing the literal `less` closure once on two fresh indices in the
// post-state and generalising the resulting term over all index pairs a < b; when the closure cannot be
// executed to a closed term only the havoc remains. That the result is a permutation of the old
// contents is not modelled.
func intrSortSlice(vc *VC, fr *Frame, st *State, args []Val, c *ssa.CallCommon, pos token.Position) Val {
	ret := Val{K: KTuple, T: types.NewTuple()}
	mi, ok := c.Args[0].(*ssa.MakeInterface)
	if !ok {
		vc.note("sort.Slice on a non-literal interface: heap havocked")
		vc.havocAllHeap(st)
		return ret
	}
	x := vc.value(fr, mi.X)
	if x.K != KSlice {
		vc.havocAllHeap(st)
		return ret
	}
	et := x.T.Underlying().(*types.Slice).Elem()
	for _, lf := range leavesOf(et) {
		if lf.bad {
			vc.havocAllHeap(st)
			return ret
		}
		hn := elemHeap(et, lf.path)
		inner := arraySort(sortIdx, lf.sort)
		hs := arraySort(sortRef, inner)
		h := vc.heapGet(st, hn, hs)
		na := vc.sc.fresh("sorted", inner)
		i := "i!q"
		vc.sc.assert(fmt.Sprintf("(forall ((%s %s)) (! (=> (not (and (bvsle %s %s) (bvslt %s %s))) (= (select %s %s) (select %s %s))) :pattern ((select %s %s))))",
			i, sortIdx, x.Sl[1], i, i, bvAdd(x.Sl[1], x.Sl[2]), na, i, sel(h, x.Sl[0]), i, na, i))
		vc.heapSet(st, hn, hs, vc.sc.define("h", hs, store(h, x.Sl[0], na)))
	}
	cl := args[1]
	if cl.Clo == nil {
		vc.note("sort.Slice with a non-literal less function: only the rearrangement is modelled")
		return ret
	}
	fn := cl.Clo.Fn.(*ssa.Function)
	ci := vc.sc.fresh("sl.a", sortIdx)
	cj := vc.sc.fresh("sl.b", sortIdx)
	mark := vc.sc.mark()
	s2 := st.clone()
	vc.assume(s2, and(sx("bvsle", i64(0), ci), sx("bvslt", ci, cj), sx("bvslt", cj, x.Sl[2])))
	wasOff := vc.safetyOff
	vc.safetyOff = true // the closure is run by the library on valid indices
	res, _ := vc.execFunc(fn, []Val{intVal(cj), intVal(ci)}, cl.Clo.Bindings, s2, fr.depth+1, nil, false)
	vc.safetyOff = wasOff
	if len(res) != 1 || res[0].K != KScalar {
		vc.note("sort.Slice: less function not executable symbolically; ordering not assumed")
		return ret
	}
	// the term must be closed over (ci, cj): nothing defined while executing may mention them,
	// except the ground idx equalities
	closed := true
	for _, ln := range vc.sc.lines[mark:] {
		if (strings.Contains(ln, ci) || strings.Contains(ln, cj)) && !strings.HasPrefix(ln, "(assert (= (idx ") && !strings.HasPrefix(ln, "(declare-const pc!") && !strings.HasPrefix(ln, "(assert (= pc!") {
			closed = false
		}
	}
	t := res[0].S
	if d, isDef := vc.sc.defs[t]; isDef {
		t = d
	}
	if !closed || !(strings.Contains(t, ci) || strings.Contains(t, cj)) {
		vc.note("sort.Slice: less function's result is not a closed term over its indices; ordering not assumed")
		return ret
	}
	a, b := "a!qs", "b!qs"
	gen := strings.ReplaceAll(strings.ReplaceAll(t, ci, a), cj, b)
	vc.assume(st, fmt.Sprintf("(forall ((%s %s) (%s %s)) (=> (and (bvsle %s %s) (bvslt %s %s) (bvslt %s %s)) (not %s)))",
		a, sortIdx, b, sortIdx, i64(0), a, a, b, b, x.Sl[2], gen))
	return ret
}
