package main

// The registered check: govc check <property> --tier quick|thorough

import (
	"encoding/json"
	"flag"
	"fmt"
	"os"
	"os/exec"
	"path/filepath"
	"sort"
	"strconv"
	"strings"
	"time"
)

type PropConfig struct {
	Packages []string `json:"packages"`
	Note     string   `json:"note"`
	Trusted  []string `json:"trusted"`
	// functions verified for safety obligations only (zero-annotation sweep), by key
	Sweep []string `json:"sweep"`
	// bounded stand-ins: exhaustive executions of the real code up to a stated bound (never counted as proved)
	Bounded []BoundedCheck `json:"bounded"`
	// integer lemmas (SMT-LIB scripts that must be unsat) backing `assume at` clauses
	MathLemmas []string `json:"mathlemmas"`
}

type BoundedCheck struct {
	Name     string            `json:"name"`
	PkgDir   string            `json:"pkgdir"`   // relative to the repo root
	TestFile string            `json:"testfile"` // absolute path of the injected in-package test
	Run      string            `json:"run"`
	Tags     string            `json:"tags"`
	Env      map[string]string `json:"env"`
	Thorough map[string]string `json:"thorough_env"`
	What     string            `json:"what"`
}

type boundedResult struct {
	Name       string   `json:"name"`
	What       string   `json:"what"`
	Cases      int      `json:"cases"`
	Mismatches []string `json:"mismatches"`
	Summary    string   `json:"summary"`
	Seconds    float64  `json:"seconds"`
	Error      string   `json:"error,omitempty"`
}

func runBounded(repo string, bc BoundedCheck, tier string, outDir string) boundedResult {
	res := boundedResult{Name: bc.Name, What: bc.What}
	t0 := time.Now()
	ov := map[string]interface{}{"Replace": map[string]string{filepath.Join(repo, bc.PkgDir, "zz_verif_bounded_test.go"): bc.TestFile}}
	ovb, _ := json.Marshal(ov)
	ovFile := filepath.Join(outDir, "bounded."+bc.Name+".overlay.json")
	os.WriteFile(ovFile, ovb, 0o644)
	tags := "verif badger"
	if bc.Tags != "" {
		tags = bc.Tags
	}
	cmd := exec.Command("go", "test", "-overlay", ovFile, "-vet=off", "-count=1", "-timeout", "900s", "-tags", tags, "-run", "^"+bc.Run+"$", "-v", ".")
	cmd.Dir = filepath.Join(repo, bc.PkgDir)
	cmd.Env = append(os.Environ(), "GOFLAGS=-mod=mod", "GOPROXY=off", "GOSUMDB=off", "GOTOOLCHAIN=local")
	env := bc.Env
	if tier == "thorough" && bc.Thorough != nil {
		env = bc.Thorough
	}
	for k, v := range env {
		cmd.Env = append(cmd.Env, k+"="+v)
	}
	if s := os.Getenv("VERIF_SEED"); s != "" {
		cmd.Env = append(cmd.Env, "VERIF_SEED="+s)
	}
	out, err := cmd.CombinedOutput()
	res.Seconds = round3(time.Since(t0).Seconds())
	sawSummary := false
	for _, line := range strings.Split(string(out), "\n") {
		line = strings.TrimSpace(line)
		switch {
		case strings.HasPrefix(line, "BOUNDED-MISMATCH "):
			res.Mismatches = append(res.Mismatches, strings.TrimPrefix(line, "BOUNDED-MISMATCH "))
		case strings.HasPrefix(line, "BOUNDED-CASES "):
			fmt.Sscanf(line, "BOUNDED-CASES %d", &res.Cases)
			res.Summary = line
			sawSummary = true
		}
	}
	if !sawSummary {
		res.Error = "bounded harness did not complete: " + truncate(string(out), 1500)
		if err != nil {
			res.Error += " (" + err.Error() + ")"
		}
	}
	return res
}

type Registry struct {
	Property    string            `json:"property"`
	Obligations map[string]string `json:"obligations"` // name -> solver that discharged it at bless time
	Functions   []string          `json:"functions"`
}

type KnownFinding struct {
	Property   string `json:"property"`
	Obligation string `json:"obligation"`
	What       string `json:"what"`
	Status     string `json:"status"` // open | fixed
	Commit     string `json:"commit,omitempty"`
	Witness    string `json:"witness,omitempty"`
}

const verifRoot = "/verif"

func loadJSON(path string, v interface{}) error {
	b, err := os.ReadFile(path)
	if err != nil {
		return err
	}
	return json.Unmarshal(b, v)
}

type funcReport struct {
	Func        string   `json:"func"`
	File        string   `json:"file"`
	Obligations int      `json:"obligations"`
	Discharged  int      `json:"discharged"`
	Unsupported []string `json:"unsupported,omitempty"`
	Notes       []string `json:"abstractions,omitempty"`
	Loops       int      `json:"loops_cut"`
	SSAInstrs   int      `json:"ssa_instructions"`
}

func cmdCheck(args []string) int {
	fs := flag.NewFlagSet("check", flag.ExitOnError)
	tier := fs.String("tier", "quick", "quick|thorough")
	bless := fs.Bool("bless", false, "write the registry from this run (never used by registered checks)")
	repo := fs.String("repo", "/repo", "repository root")
	verbose := fs.Bool("v", false, "verbose")
	var prop string
	if len(args) > 0 && !strings.HasPrefix(args[0], "-") {
		prop = args[0]
		args = args[1:]
	}
	fs.Parse(args)
	if prop == "" && fs.NArg() > 0 {
		prop = fs.Arg(0)
	}
	if prop == "" {
		fmt.Fprintln(os.Stderr, "usage: govc check <property> [--tier quick|thorough]")
		return 2
	}
	if t := os.Getenv("VERIF_TIER"); t != "" && *tier == "" {
		*tier = t
	}
	seed, _ := strconv.Atoi(os.Getenv("VERIF_SEED"))
	t0 := time.Now()

	var cfgs map[string]PropConfig
	if err := loadJSON(filepath.Join(verifRoot, "contracts", "map.json"), &cfgs); err != nil {
		fmt.Fprintln(os.Stderr, "cannot read contracts/map.json:", err)
		return 2
	}
	cfg, ok := cfgs[prop]
	if !ok {
		fmt.Fprintf(os.Stderr, "property %s is not claimed (see MANIFEST.json not_applicable)\n", prop)
		return 2
	}
	e, err := loadEngine(*repo, cfg.Packages)
	if err != nil {
		fmt.Fprintf(os.Stderr, "UNDECIDED property=%s: cannot load /repo with tags 'verif badger': %v\n", prop, err)
		return 2
	}
	for _, d := range []string{"specs", "trusted"} {
		if err := e.loadSpecDir(filepath.Join(verifRoot, d)); err != nil {
			fmt.Fprintln(os.Stderr, "spec error:", err)
			return 2
		}
	}
	// functions of this property
	var keys []string
	for k, c := range e.cs.Funcs {
		for _, p := range c.Props {
			if p == prop {
				keys = append(keys, k)
			}
		}
	}
	sort.Strings(keys)
	var vcs []*VC
	var orphans []string
	var reports []*funcReport
	for _, k := range keys {
		fn := e.funcs[k]
		if fn == nil {
			orphans = append(orphans, k)
			continue
		}
		con := e.cs.Funcs[k]
		if con.Flags["trusted"] {
			continue
		}
		vcs = append(vcs, e.verifyFunc(fn, con))
	}
	for _, k := range cfg.Sweep {
		fn := e.funcs[k]
		if fn == nil {
			orphans = append(orphans, k)
			continue
		}
		if _, has := e.cs.Funcs[k]; has {
			continue
		}
		vcs = append(vcs, e.verifyFunc(fn, nil))
	}
	timeout := 20
	if *tier == "thorough" {
		timeout = 90
	}
	outDir := filepath.Join(verifRoot, "out", prop)
	os.RemoveAll(outDir)
	os.MkdirAll(outDir, 0o755)
	dischargeAll(vcs, outDir, timeout, 16)

	mathOK := 0
	var mathBad []string
	for _, ml := range cfg.MathLemmas {
		// integer lemmas are small: try each installed solver in turn (they differ on nonlinear div/mod)
		proved := false
		file := filepath.Join(verifRoot, "specs", "mathlemmas", ml)
		for _, argv := range [][]string{{"z3-new", "-T:20", file}, {"cvc5", "--tlimit=20000", file}, {"z3", "-T:20", file}} {
			out, _ := exec.Command(argv[0], argv[1:]...).CombinedOutput()
			for _, line := range strings.Split(string(out), "\n") {
				if strings.TrimSpace(line) == "unsat" {
					proved = true
				}
			}
			if proved {
				break
			}
		}
		if proved {
			mathOK++
		} else {
			mathBad = append(mathBad, ml)
		}
	}
	var bounded []boundedResult
	for _, bc := range cfg.Bounded {
		bounded = append(bounded, runBounded(*repo, bc, *tier, outDir))
	}

	// registry and known findings
	var reg Registry
	regPath := filepath.Join(verifRoot, "contracts", "registry", prop+".json")
	haveReg := loadJSON(regPath, &reg) == nil
	var known []KnownFinding
	loadJSON(filepath.Join(verifRoot, "known_findings.json"), &known)
	isKnown := func(name string) *KnownFinding {
		for i := range known {
			if known[i].Property == prop && known[i].Obligation == name && known[i].Status == "open" {
				return &known[i]
			}
		}
		return nil
	}

	total, discharged := 0, 0
	var failed []*Obligation
	var failedVC []*VC
	seen := map[string]bool{}
	solverTime := map[string]float64{}
	solverCount := map[string]int{}
	var samples []map[string]interface{}
	coverIncon := 0
	var unsupAll []string
	for _, vc := range vcs {
		rep := &funcReport{Func: vc.root, Unsupported: vc.unsup}
		if fn := e.funcs[vc.root]; fn != nil {
			p := e.fset.Position(fn.Pos())
			rep.File = fmt.Sprintf("%s:%d", shortFile(p.Filename), p.Line)
			rep.Loops = len(findLoops(fn))
			for _, b := range fn.Blocks {
				rep.SSAInstrs += len(b.Instrs)
			}
		}
		for n := range vc.notes {
			rep.Notes = append(rep.Notes, n)
		}
		sort.Strings(rep.Notes)
		for _, u := range vc.unsup {
			unsupAll = append(unsupAll, vc.root+": "+u)
		}
		for _, o := range vc.obls {
			seen[o.Name] = true
			seen[oblGroup(o.Name)] = true
			if o.Cover {
				if o.Result == "unsat" {
					failed = append(failed, o)
					failedVC = append(failedVC, vc)
				} else if o.Result != "sat" {
					coverIncon++
				}
				continue
			}
			total++
			rep.Obligations++
			solverTime[o.Solver] += o.Time
			solverCount[o.Solver]++
			if o.ok() {
				discharged++
				rep.Discharged++
				if len(samples) < 6 && (o.Kind == "ensures" || o.Kind == "invariant") {
					samples = append(samples, map[string]interface{}{"obligation": o.Name, "kind": o.Kind, "clause": o.Desc, "solver": o.Solver, "seconds": round3(o.Time)})
				}
			} else {
				failed = append(failed, o)
				failedVC = append(failedVC, vc)
			}
		}
		reports = append(reports, rep)
	}
	if *bless {
		reg = Registry{Property: prop, Obligations: map[string]string{}}
		for _, vc := range vcs {
			reg.Functions = append(reg.Functions, vc.root)
			for _, o := range vc.obls {
				// the registry tracks contract-level obligations only; safety obligations are named after
				// source text and legitimately come and go with harmless edits
				if !o.Cover && o.ok() && (o.Kind == "ensures" || o.Kind == "invariant" || o.Kind == "assert") {
					reg.Obligations[oblGroup(o.Name)] = o.Solver
				}
			}
		}
		os.MkdirAll(filepath.Dir(regPath), 0o755)
		b, _ := json.MarshalIndent(reg, "", " ")
		os.WriteFile(regPath, b, 0o644)
		fmt.Printf("blessed %d obligations of %d functions into %s\n", len(reg.Obligations), len(reg.Functions), regPath)
		haveReg = true
	}
	// obligations blessed on the unchanged tree that could not be regenerated
	var missing []string
	if haveReg {
		for n := range reg.Obligations {
			if !seen[n] {
				missing = append(missing, n)
			}
		}
		sort.Strings(missing)
	}

	exit := 0
	violations := 0
	var knownLines []string
	var knownRefuted []string
	replayDir := filepath.Join(verifRoot, "out", "replay", prop)
	os.RemoveAll(replayDir)
	os.MkdirAll(replayDir, 0o755)
	for i, o := range failed {
		if kf := isKnown(o.Name); kf != nil {
			knownLines = append(knownLines, fmt.Sprintf("KNOWN-FINDING: property=%s %s [%s]", prop, kf.What, o.Name))
			// an obligation refuted by a recorded defect is reported as that finding; it is not part of
			// what this run claims to have proved
			total--
			knownRefuted = append(knownRefuted, o.Name)
			continue
		}
		violations++
		path, confirmed := writeReplay(e, failedVC[i], o, prop, replayDir)
		suffix := ""
		if !confirmed {
			suffix = " no-failing-input-found"
		}
		fmt.Printf("VIOLATION property=%s replay=%s%s\n", prop, path, suffix)
		fmt.Printf("  failed obligation: %s (%s) at %s:%d: %s [%s]\n", o.Name, o.Kind, shortFile(o.Pos.Filename), o.Pos.Line, o.Desc, o.Result)
		exit = 1
	}
	// thorough tier: replay the hand-written witnesses of this property's FIXED findings on the current tree
	// (real executions with the race detector where it matters; a regression net, not part of the proof)
	var witnessRuns []map[string]interface{}
	if *tier == "thorough" {
		var idx []struct {
			Property, File, Pkgdir, Run, Expect string
			Race                                bool
		}
		loadJSON(filepath.Join(verifRoot, "replay", "index.json"), &idx)
		for _, w := range idx {
			if w.Property != prop || w.Expect != "pass" {
				continue
			}
			ov := map[string]interface{}{"Replace": map[string]string{filepath.Join(*repo, w.Pkgdir, "zz_verif_replay_test.go"): w.File}}
			ovb, _ := json.Marshal(ov)
			ovFile := filepath.Join(outDir, "witness."+w.Run+".overlay.json")
			os.WriteFile(ovFile, ovb, 0o644)
			args := []string{"test", "-overlay", ovFile, "-vet=off", "-count=1", "-timeout", "300s", "-tags", "badger", "-run", "^" + w.Run + "$"}
			if w.Race {
				args = append(args, "-race")
			}
			args = append(args, "./"+w.Pkgdir)
			cmd := exec.Command("go", args...)
			cmd.Dir = *repo
			cmd.Env = append(os.Environ(), "GOFLAGS=-mod=mod", "GOPROXY=off", "GOSUMDB=off", "GOTOOLCHAIN=local")
			out, err := cmd.CombinedOutput()
			res := "pass"
			if err != nil {
				res = "FAIL"
				violations++
				path := filepath.Join(replayDir, "witness."+w.Run+".json")
				b, _ := json.MarshalIndent(map[string]interface{}{"property": prop, "witness": w.File, "test": w.Run, "status": "witness of a fixed finding fails on the current tree", "output_tail": truncate(tailOf(string(out), 4000), 4000)}, "", " ")
				os.WriteFile(path, b, 0o644)
				fmt.Printf("VIOLATION property=%s replay=%s\n", prop, path)
				fmt.Printf("  witness %s (%s) of a fixed finding fails on the current tree\n", w.Run, w.File)
				exit = 1
			}
			witnessRuns = append(witnessRuns, map[string]interface{}{"test": w.Run, "file": w.File, "race": w.Race, "result": res})
		}
	}
	for _, n := range missing {
		if isKnown(n) != nil {
			continue
		}
		violations++
		path := filepath.Join(replayDir, unsafeName.ReplaceAllString(n, "_")+".json")
		b, _ := json.MarshalIndent(map[string]interface{}{"property": prop, "obligation": n, "status": "obligation discharged on the unchanged tree could not be regenerated from the current source",
			"unsupported": unsupAll, "orphans": orphans}, "", " ")
		os.WriteFile(path, b, 0o644)
		fmt.Printf("VIOLATION property=%s replay=%s no-failing-input-found\n", prop, path)
		fmt.Printf("  obligation %s (discharged on the unchanged tree) is no longer generated\n", n)
		exit = 1
	}
	// bounded stand-ins: every mismatch is a violation on the real code (the harness ran it)
	boundedCases := 0
	for _, br := range bounded {
		boundedCases += br.Cases
		if br.Error != "" {
			violations++
			path := filepath.Join(replayDir, "bounded."+br.Name+".json")
			b, _ := json.MarshalIndent(br, "", " ")
			os.WriteFile(path, b, 0o644)
			fmt.Printf("VIOLATION property=%s replay=%s no-failing-input-found\n", prop, path)
			fmt.Printf("  bounded check %s did not complete: %s\n", br.Name, truncate(br.Error, 300))
			exit = 1
			continue
		}
		var fresh []string
		for _, mm := range br.Mismatches {
			id := strings.Fields(mm)[0]
			if kf := isKnown("bounded:" + br.Name + ":" + id); kf != nil {
				knownLines = append(knownLines, fmt.Sprintf("KNOWN-FINDING: property=%s %s [bounded:%s:%s]", prop, kf.What, br.Name, id))
				continue
			}
			fresh = append(fresh, mm)
		}
		if len(fresh) > 0 {
			violations++
			path := filepath.Join(replayDir, "bounded."+br.Name+".json")
			b, _ := json.MarshalIndent(map[string]interface{}{"property": prop, "bounded_check": br.Name, "what": br.What, "failing_inputs": fresh,
				"replay_cmd": fmt.Sprintf("cd %s && go test -overlay <overlay mapping zz_verif_bounded_test.go to %s> -vet=off -tags 'verif badger' -run '^%s$' -v .", filepath.Join(*repo, cfg.Bounded[0].PkgDir), cfg.Bounded[0].TestFile, cfg.Bounded[0].Run)}, "", " ")
			os.WriteFile(path, b, 0o644)
			fmt.Printf("VIOLATION property=%s replay=%s\n", prop, path)
			fmt.Printf("  bounded check %s: %d failing inputs on the real code, first: %s\n", br.Name, len(fresh), fresh[0])
			exit = 1
		}
	}
	for _, ml := range mathBad {
		violations++
		path := filepath.Join(replayDir, "mathlemma."+ml+".json")
		os.WriteFile(path, []byte(fmt.Sprintf("{\"property\": %q, \"obligation\": \"mathlemma:%s\", \"status\": \"integer lemma not proved\"}", prop, ml)), 0o644)
		fmt.Printf("VIOLATION property=%s replay=%s no-failing-input-found\n", prop, path)
		exit = 1
	}
	for _, l := range knownLines {
		fmt.Println(l)
	}
	if len(orphans) > 0 && exit == 0 {
		fmt.Printf("UNDECIDED property=%s orphan contracts: %s\n", prop, strings.Join(orphans, ", "))
		exit = 2
	}
	if total == 0 {
		fmt.Printf("UNDECIDED property=%s: no obligations generated\n", prop)
		exit = 2
	}

	// evidence
	var trusted []string
	for k := range e.usedTrusted {
		trusted = append(trusted, "trusted model: "+k)
	}
	sort.Strings(trusted)
	trustedBase := append([]string{
		"go/packages + go/types + go/ssa (x/tools v0.29.0) represent /repo's working tree faithfully (tags: verif badger)",
		"govc SSA->SMT semantics: 64-bit two's-complement integers as bit-vectors, Burstall heap, slices bounded by cap, lengths <= 2^40",
		"SMT solvers z3 4.8.12, z3 5.1.0 (z3-new), cvc5 1.0.3: an `unsat` from any one of them discharges an obligation",
		"Go type safety outside unsafe code",
	}, cfg.Trusted...)
	trustedBase = append(trustedBase, trusted...)
	var contractsAssumed []string
	for k := range e.usedContracts {
		contractsAssumed = append(contractsAssumed, k)
	}
	sort.Strings(contractsAssumed)
	verified := map[string]bool{}
	for _, vc := range vcs {
		verified[vc.root] = true
	}
	var assumedOnly []string
	for _, k := range contractsAssumed {
		if !verified[k] {
			assumedOnly = append(assumedOnly, k)
		}
	}
	stimes := map[string]interface{}{}
	for s, t := range solverTime {
		if s == "" {
			s = "none(undischarged)"
		}
		stimes[s] = map[string]interface{}{"obligations": solverCount[strings.TrimSuffix(s, "")], "seconds": round3(t)}
	}
	if len(samples) == 0 {
		for _, vc := range vcs {
			for _, o := range vc.obls {
				if len(samples) < 4 && !o.Cover {
					samples = append(samples, map[string]interface{}{"obligation": o.Name, "kind": o.Kind, "clause": o.Desc, "solver": o.Solver, "result": o.Result})
				}
			}
		}
	}
	assumptions := []string{}
	assumptions = append(assumptions, cfg.Note)
	for _, k := range assumedOnly {
		assumptions = append(assumptions, "contract used at call sites but verified under another property or trusted: "+k)
	}
	for _, u := range unsupAll {
		assumptions = append(assumptions, "construct outside modelled subset (abstracted): "+u)
	}
	if coverIncon > 0 {
		assumptions = append(assumptions, fmt.Sprintf("%d vacuity covers inconclusive (solver returned unknown on a satisfiability query with quantifiers); vacuity is additionally guarded by the must-fail corpus in /verif/selftest", coverIncon))
	}
	ev := map[string]interface{}{
		"property_id": prop, "tier": *tier, "seed": seed, "level": "proof",
		"coverage": map[string]interface{}{
			"obligations": total, "discharged": discharged,
			"checker_cmd":                           fmt.Sprintf("/verif/bin/check %s --tier %s", prop, *tier),
			"trusted_base":                          trustedBase,
			"functions_under_contract":              reports,
			"solver_time":                           stimes,
			"samples":                               samples,
			"registry_obligations":                  len(reg.Obligations),
			"missing_from_registry":                 missing,
			"known_findings_printed":                knownLines,
			"obligations_refuted_by_known_findings": knownRefuted,
			"integer_mode":                          "bit-vector (machine arithmetic, wrap-around)",
			"vacuity_covers_inconclusive":           coverIncon,
			"witness_replays_of_fixed_findings":     witnessRuns,
			"integer_lemmas_proved":                 mathOK,
			"bounded_stand_ins":                     bounded,
			"bounded_note":                          "bounded stand-ins execute the real code exhaustively up to the stated bound; they are NOT counted in obligations/discharged",
		},
		"assumptions": assumptions,
		"wall_s":      round3(time.Since(t0).Seconds()),
		"violations":  violations,
	}
	os.MkdirAll(filepath.Join(verifRoot, "evidence"), 0o755)
	b, _ := json.MarshalIndent(ev, "", " ")
	os.WriteFile(filepath.Join(verifRoot, "evidence", prop+".json"), b, 0o644)
	if *verbose || exit != 0 {
		for _, r := range reports {
			fmt.Printf("  %-70s %d/%d\n", r.Func, r.Discharged, r.Obligations)
		}
	}
	fmt.Printf("property %s: %d obligations, %d discharged, %d known findings, %d violations, %.1fs\n", prop, total, discharged, len(knownLines), violations, time.Since(t0).Seconds())
	return exit
}

// oblGroup: obligations of one clause at different return sites belong to one group
// (the registry tracks groups so that editing a return statement does not orphan a clause).
func oblGroup(name string) string {
	if i := strings.Index(name, "@"); i > 0 && strings.Contains(name[:i], "#ensures") {
		return name[:i]
	}
	return name
}

func round3(f float64) float64 { return float64(int(f*1000+0.5)) / 1000 }

// writeReplay records the failed obligation and tries to confirm it on the real code.
func writeReplay(e *Engine, vc *VC, o *Obligation, prop, dir string) (string, bool) {
	path := filepath.Join(dir, o.fileBase()+".json")
	rec := map[string]interface{}{
		"property": prop, "obligation": o.Name, "kind": o.Kind, "clause": o.Desc,
		"function": o.Func, "position": fmt.Sprintf("%s:%d", shortFile(o.Pos.Filename), o.Pos.Line),
		"solver_result": o.Result, "solver": o.Solver, "solver_output": truncate(o.Model, 20000),
	}
	confirmed := false
	if o.Result == "sat" {
		if r := replayOnRealCode(e, vc, o, dir); r != nil {
			rec["replay"] = r
			if c, ok := r["confirmed"].(bool); ok && c {
				confirmed = true
			}
		}
	}
	b, _ := json.MarshalIndent(rec, "", " ")
	os.WriteFile(path, b, 0o644)
	return path, confirmed
}

func truncate(s string, n int) string {
	if len(s) > n {
		return s[:n] + "...[truncated]"
	}
	return s
}

func tailOf(s string, n int) string {
	if len(s) > n {
		return s[len(s)-n:]
	}
	return s
}
