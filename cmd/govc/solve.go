package main

import (
	"bytes"
	"context"
	"fmt"
	"os"
	"os/exec"
	"path/filepath"
	"regexp"
	"strings"
	"sync"
	"time"
)

type solverSpec struct {
	name string
	argv func(file string, timeoutS int) []string
	pre  string
}

var solvers = []solverSpec{
	{"z3-new", func(f string, t int) []string { return []string{"z3-new", fmt.Sprintf("-T:%d", t), f} }, ""},
	{"cvc5", func(f string, t int) []string {
		return []string{"cvc5", "--produce-models", fmt.Sprintf("--tlimit=%d", t*1000), f}
	}, "(set-logic ALL)\n"},
	{"z3", func(f string, t int) []string { return []string{"z3", fmt.Sprintf("-T:%d", t), f} }, ""},
	// cvc5 with bit-vectors translated to integer arithmetic: decides linear 64-bit index
	// arithmetic that bit-blasting solvers need many seconds for
	{"cvc5-int", func(f string, t int) []string {
		return []string{"cvc5", "--produce-models", "--solve-bv-as-int=sum", fmt.Sprintf("--tlimit=%d", t*1000), f}
	}, "(set-logic ALL)\n"},
}

var retryMu sync.Mutex

var unsafeName = regexp.MustCompile(`[^A-Za-z0-9_.#-]+`)

func (o *Obligation) fileBase() string {
	n := unsafeName.ReplaceAllString(o.Name, "_")
	if len(n) > 150 {
		n = n[:150]
	}
	return n
}

func (vc *VC) scriptFor(o *Obligation) string {
	var b strings.Builder
	// the idx axiom is only needed when idx occurs under a quantifier (ground occurrences carry
	// their defining equation)
	quantified := strings.Contains(o.PC, "forall") || strings.Contains(o.Goal, "forall") || strings.Contains(o.Goal, "exists")
	if !quantified {
		for _, l := range vc.sc.lines[:o.Mark] {
			if l != idxAxiom && (strings.Contains(l, "(forall ") || strings.Contains(l, "(exists ")) {
				quantified = true
				break
			}
		}
	}
	for _, l := range vc.sc.lines[:o.Mark] {
		if l == idxAxiom && !quantified {
			continue
		}
		b.WriteString(l)
		b.WriteByte('\n')
	}
	b.WriteString("(assert " + o.PC + ")\n")
	if !o.Cover {
		b.WriteString("(assert (not " + sanitizePatterns(o.Goal) + "))\n")
	}
	b.WriteString("(check-sat)\n")
	return b.String()
}

type solveResult struct {
	status string // unsat sat unknown timeout error
	solver string
	secs   float64
	out    string
}

func runSolver(ctx context.Context, s solverSpec, script string, dir, base string, timeoutS int, wantModel bool) solveResult {
	file := filepath.Join(dir, base+"."+s.name+".smt2")
	body := s.pre + script
	if s.name == "cvc5-int" {
		// the int-blasting mode rejects quantified bit-vector variables under uninterpreted functions;
		// ground idx terms carry their defining equations, so the axiom can be dropped for this solver
		body = strings.Replace(body, idxAxiom+"\n", "", 1)
		body = strings.Replace(body, "(declare-fun idx ((_ BitVec 64) (_ BitVec 64)) (_ BitVec 64))\n", "", 1)
		body = strings.ReplaceAll(body, "(idx ", "(bvadd ")
	}
	if wantModel {
		body += "(get-model)\n"
	}
	if err := os.WriteFile(file, []byte(body), 0o644); err != nil {
		return solveResult{status: "error", solver: s.name, out: err.Error()}
	}
	argv := s.argv(file, timeoutS)
	cctx, cancel := context.WithTimeout(ctx, time.Duration(timeoutS+2)*time.Second)
	defer cancel()
	cmd := exec.CommandContext(cctx, argv[0], argv[1:]...)
	var out bytes.Buffer
	cmd.Stdout = &out
	cmd.Stderr = &out
	t0 := time.Now()
	_ = cmd.Run()
	secs := time.Since(t0).Seconds()
	text := out.String()
	first := strings.TrimSpace(strings.SplitN(text, "\n", 2)[0])
	st := "unknown"
	switch {
	case first == "unsat":
		st = "unsat"
	case first == "sat":
		st = "sat"
	case strings.Contains(first, "timeout") || cctx.Err() != nil:
		st = "timeout"
	case strings.HasPrefix(first, "(error") || strings.Contains(first, "rror"):
		st = "error"
	}
	return solveResult{status: st, solver: s.name, secs: secs, out: text}
}

// discharge runs the solver portfolio on one obligation.
func (vc *VC) discharge(o *Obligation, outDir string, timeoutS int) {
	if !o.Cover && o.Goal == "true" {
		o.Result, o.Solver = "unsat", "trivial"
		return
	}
	script := vc.scriptFor(o)
	base := o.fileBase()
	if o.Cover && timeoutS > 4 {
		timeoutS = 4
	}
	// a goal that is literally false can only be discharged by an infeasible path: a reachability
	// query, given the same short budget as covers and no long retry
	reachOnly := !o.Cover && o.Goal == "false"
	if reachOnly && timeoutS > 4 {
		timeoutS = 4
	}
	want := "unsat"
	if o.Cover {
		want = "sat"
	}
	_ = want
	// phase 1: quick attempt with z3-new
	quick := 4
	if timeoutS < quick {
		quick = timeoutS
	}
	r := runSolver(context.Background(), solvers[0], script, outDir, base, quick, false)
	if r.status == "unsat" || r.status == "sat" {
		vc.finish(o, r, script, outDir, base)
		return
	}
	// phase 2: race all
	ctx, cancel := context.WithCancel(context.Background())
	defer cancel()
	ch := make(chan solveResult, len(solvers))
	for _, s := range solvers {
		s := s
		go func() { ch <- runSolver(ctx, s, script, outDir, base, timeoutS, false) }()
	}
	var all []solveResult
	for range solvers {
		r := <-ch
		all = append(all, r)
		if r.status == "unsat" || r.status == "sat" {
			cancel()
			vc.finish(o, r, script, outDir, base)
			return
		}
	}
	// last resort before reporting an undischarged obligation: one more, longer, uncontended attempt
	// (guards against timeouts caused by machine load rather than by the obligation)
	if !o.Cover {
		retryT := timeoutS * 3
		if reachOnly {
			// reachability queries have a 4 s budget above; under heavy machine load (a test suite running
			// beside the check) that was exceeded on the unchanged tree, so they get one uncontended retry too
			retryT = 20
		}
		retryMu.Lock()
		for _, s := range solvers[:2] {
			r := runSolver(context.Background(), s, script, outDir, base+".retry", retryT, false)
			all = append(all, r)
			if r.status == "unsat" || r.status == "sat" {
				retryMu.Unlock()
				vc.finish(o, r, script, outDir, base)
				return
			}
		}
		retryMu.Unlock()
	}
	o.Result = "unknown"
	var sb strings.Builder
	for _, r := range all {
		fmt.Fprintf(&sb, "%s: %s (%.1fs) %s\n", r.solver, r.status, r.secs, firstLine(r.out))
		o.Time += r.secs
	}
	o.Model = sb.String()
}

func firstLine(s string) string {
	s = strings.TrimSpace(s)
	if i := strings.IndexByte(s, '\n'); i >= 0 {
		s = s[:i]
	}
	if len(s) > 200 {
		s = s[:200]
	}
	return s
}

func (vc *VC) finish(o *Obligation, r solveResult, script, outDir, base string) {
	o.Result, o.Solver, o.Time = r.status, r.solver, r.secs
	if r.status == "sat" && !o.Cover {
		// fetch a model from the same solver
		for _, s := range solvers {
			if s.name == r.solver {
				m := runSolver(context.Background(), s, script, outDir, base+".model", 20, true)
				o.Model = m.out
			}
		}
	}
}

func dischargeAll(vcs []*VC, outDir string, timeoutS, workers int) {
	type job struct {
		vc *VC
		o  *Obligation
	}
	jobs := make(chan job)
	var wg sync.WaitGroup
	for w := 0; w < workers; w++ {
		wg.Add(1)
		go func() {
			defer wg.Done()
			for j := range jobs {
				dir := filepath.Join(outDir, unsafeName.ReplaceAllString(j.vc.root, "_"))
				os.MkdirAll(dir, 0o755)
				j.vc.discharge(j.o, dir, timeoutS)
			}
		}()
	}
	for _, vc := range vcs {
		for _, o := range vc.obls {
			jobs <- job{vc, o}
		}
	}
	close(jobs)
	wg.Wait()
}

// ok reports whether the obligation is discharged.
func (o *Obligation) ok() bool {
	if o.Cover {
		return o.Result != "unsat"
	}
	return o.Result == "unsat"
}
