; Integer lemma used (as `assume at`) in BadgerDB.DeleteRange:
;   n = 1000*b + p, 0 <= p - 1 < 1000 (p counts the deletes including the one just issued), n, b >= 0
;   ==> ((n + 1) mod 1000 = 0  <=>  p = 1000)          [n is numKV before its increment, p = pending]
; and n = 1000*b + p, 0 <= p < 1000 ==> (n mod 1000 = 0 <=> p = 0)
(declare-const n Int) (declare-const b Int) (declare-const p Int)
(assert (and (>= n 0) (>= b 0)))
(assert (or
  (and (= n (+ (* 1000 b) (- p 1))) (<= 1 p) (<= p 1000) (not (= (= (mod (+ n 1) 1000) 0) (= p 1000))))
  (and (= n (+ (* 1000 b) p)) (<= 0 p) (< p 1000) (not (= (= (mod n 1000) 0) (= p 0))))))
(check-sat)
