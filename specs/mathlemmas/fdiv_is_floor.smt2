; Integer lemma behind the spec function fdiv (specs/geom.spec), used by Point3d.ToBlockIZYXString
; and Point3d.Chunk (C13, C17):
;   for s > 0:  fdiv(p, s) = ite(p < 0, tdiv(p - s + 1, s), tdiv(p, s))  is the floor of p/s, i.e. the
;   unique c with c*s <= p < c*s + s  -- the block that contains coordinate p.
; tdiv is Go's truncated division, written with SMT-LIB's (floor-for-positive-divisor) div.
(define-fun tdiv ((a Int) (b Int)) Int (ite (>= a 0) (div a b) (- (div (- a) b))))
(declare-const p Int) (declare-const s Int)
(assert (> s 0))
(define-fun c () Int (ite (< p 0) (tdiv (+ (- p s) 1) s) (tdiv p s)))
(assert (not (and (<= (* c s) p) (< p (+ (* c s) s)))))
(check-sat)
