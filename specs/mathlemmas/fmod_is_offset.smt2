; Integer lemma behind the spec function fmod (specs/geom.spec), used by Point3d.Point3dInChunk (C17):
;   for s > 0:  fmod(p, s) = ite(p < 0, s + trem(p + 1, s) - 1, trem(p, s))  is the offset of p inside
;   its block: 0 <= fmod < s and fdiv(p, s) * s + fmod(p, s) = p.   trem is Go's truncated remainder.
(define-fun tdiv ((a Int) (b Int)) Int (ite (>= a 0) (div a b) (- (div (- a) b))))
(define-fun trem ((a Int) (b Int)) Int (- a (* b (tdiv a b))))
(declare-const p Int) (declare-const s Int)
(assert (> s 0))
(define-fun fd () Int (ite (< p 0) (tdiv (+ (- p s) 1) s) (tdiv p s)))
(define-fun fm () Int (ite (< p 0) (- (+ s (trem (+ p 1) s)) 1) (trem p s)))
(assert (not (and (<= 0 fm) (< fm s) (= (+ (* fd s) fm) p))))
(check-sat)
