#!/usr/bin/env python3
"""usage: manifest_add.py <ID> "<level text>" [design_ref]  -- (re)creates the MANIFEST check entry for a
property from contracts/map.json, drops it from not_applicable, refreshes hooks.source_commits."""
import json,subprocess,sys
pid,text=sys.argv[1],sys.argv[2]
ref=sys.argv[3] if len(sys.argv)>3 else "DESIGN.md §9.2 "+pid
m=json.load(open('/verif/MANIFEST.json'))
mp=json.load(open('/verif/contracts/map.json'))
m['not_applicable']=[n for n in m['not_applicable'] if n['property_id']!=pid]
m['checks']=[c for c in m['checks'] if c['property_id']!=pid]
m['checks'].append({
 "property_id":pid,
 "quick_cmd":f"/verif/bin/check {pid} --tier quick",
 "thorough_cmd":f"/verif/bin/check {pid} --tier thorough",
 "evidence_file":f"/verif/evidence/{pid}.json",
 "replay_cmd_template":"cat {path}",
 "engine":"govc",
 "level_claimed":{"category":"proof","text":text,"design_ref":ref},
 "level_note":mp[pid]['note']+" Trusted: "+"; ".join(mp[pid].get('trusted',[])),
 "technique":"contract-based deductive verification (VC generation over go/ssa + SMT)"})
m['checks'].sort(key=lambda c:c['property_id'])
log=subprocess.run(['git','-C','/repo','log','--format=%h %s'],capture_output=True,text=True).stdout.splitlines()
m['hooks']['source_commits']=[l.split()[0] for l in log if ' verif:' in ' '+l]
json.dump(m,open('/verif/MANIFEST.json','w'),indent=1)
print("ok",pid,len(m['checks']),"checks;",[n['property_id'] for n in m['not_applicable']],"n/a")
