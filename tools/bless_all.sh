#!/bin/sh
# Re-bless every claimed property's registry (run after ANY contract edit: assert numbering and shared functions
# affect the registries of every property that loads the edited package) and print a one-line status each.
for p in $(python3 -c "import json;print(' '.join(c['property_id'] for c in json.load(open('/verif/MANIFEST.json'))['checks']))"); do
  /verif/bin/check $p --tier quick --bless 2>&1 | grep -E "^property|^VIOLATION" | cut -c1-200
done
