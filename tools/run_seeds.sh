#!/bin/sh
# Apply each seeded change to /repo, run the quick check of the property it breaks, undo.
# usage: run_seeds.sh [seed-id ...]     (default: all under /verif/seeded)
if [ -n "$(git -C /repo status --porcelain --untracked-files=no)" ]; then echo "refusing to run: /repo has uncommitted changes (they would be lost)"; exit 2; fi
cd /verif/seeded || exit 2
seeds="$@"; [ -z "$seeds" ] && seeds=$(ls)
for s in $seeds; do
  prop=${s%%-*}
  # patch.diff is against the pinned commit; patch.current.diff (if present) is the same change ported
  # to the current tree after later fix commits touched the same lines
  pf=/verif/seeded/$s/patch.diff; [ -f /verif/seeded/$s/patch.current.diff ] && pf=/verif/seeded/$s/patch.current.diff
  if ! git -C /repo apply --recount --check $pf 2>/dev/null; then echo "$s: patch does not apply to current /repo"; continue; fi
  git -C /repo apply --recount $pf
  if grep -q "\"property_id\": \"$prop\"" /verif/MANIFEST.json; then
    cp /verif/evidence/$prop.json /verif/out/.evidence.$prop.bak 2>/dev/null  # evidence describes the unchanged tree: keep it
    out=$(/verif/bin/check $prop --tier quick 2>&1); rc=$?
    [ -f /verif/out/.evidence.$prop.bak ] && mv /verif/out/.evidence.$prop.bak /verif/evidence/$prop.json
    n=$(echo "$out" | grep -c '^VIOLATION')
    echo "$s: exit=$rc violations=$n $(echo "$out" | grep -m1 'failed obligation' | cut -c1-160)"
  else
    echo "$s: property $prop not claimed"
  fi
  git -C /repo reset -q --hard HEAD
done
