#!/usr/bin/env python3
"""Confirm a seeded property-breaking change produced by a sub-agent and store it under /verif/seeded.

usage: confirm_seed.py <property> <letter> <srcdir>
Checks, in a scratch worktree of /repo's base commit: demo passes without the patch; patch applies;
all packages (except the doc-only root) build with and without -tags badger; demo fails with the patch;
the baseline suite's passing set is exactly BASELINE.stable_pass. Removes the worktree afterwards."""
import sys, os, re, json, subprocess, shutil, shlex
prop, letter, src = sys.argv[1:4]
BASE = os.environ.get("SEED_BASE", "2666ee5")
env = dict(os.environ, GOFLAGS="-mod=mod", GOPROXY="off", GOSUMDB="off", GOTOOLCHAIN="local")
wt = "/tmp/cf-%s%s" % (prop, letter)
def sh(cmd, cwd=None, timeout=1500):
    p = subprocess.run(cmd, shell=True, cwd=cwd, env=env, stdout=subprocess.PIPE, stderr=subprocess.STDOUT, timeout=timeout)
    return p.returncode, p.stdout.decode(errors="replace")
run = open(os.path.join(src, "RUN.md")).read()
demos = [f for f in os.listdir(src) if f.endswith("_test.go") or (f.endswith(".go") and f != "patch.diff")]
m = re.search(r"^\s*cp\s+(.+)$", run, re.M)
dest = m.group(1).split()[-1]
dest = dest.replace("<tree>/", "")
destdir = dest if not dest.endswith(".go") else os.path.dirname(dest)
m = re.search(r"^\s*(go test [^\n]*)", run, re.M)
cmd = m.group(1).strip()
if " -timeout" not in cmd:
    cmd = cmd.replace("go test", "go test -timeout 300s", 1)
res = {"property": prop, "seed": prop + "-" + letter, "demo_files": demos, "demo_dest": destdir, "demo_cmd": cmd, "base_commit": BASE}
sh("git -C /repo worktree remove --force %s" % wt)
rc, out = sh("git -C /repo worktree add -q --detach %s %s" % (wt, BASE))
assert rc == 0, out
try:
    for d in demos:
        shutil.copy(os.path.join(src, d), os.path.join(wt, destdir, d))
    rc0, out0 = sh(cmd, cwd=wt)
    res["demo_without_patch"] = {"exit": rc0, "tail": out0[-600:]}
    rc, out = sh("git apply %s" % os.path.join(src, "patch.diff"), cwd=wt)
    res["patch_applies"] = rc == 0
    pk = "$(go list ./... | grep -v '^github.com/janelia-flyem/dvid$' | grep -v tests_integration)"
    rcb, outb = sh("go build %s && go build -tags badger %s && go vet -tags badger %s >/dev/null 2>&1; true" % (pk, pk, destdir and "./"+destdir.strip("/") or "./..."), cwd=wt)
    rcb, outb = sh("go build %s && go build -tags badger %s" % (pk, pk), cwd=wt)
    res["builds"] = rcb == 0
    if rcb != 0: res["build_out"] = outb[-800:]
    rc1, out1 = sh(cmd, cwd=wt)
    res["demo_with_patch"] = {"exit": rc1, "tail": out1[-900:]}
    for d in demos:
        os.remove(os.path.join(wt, destdir, d))
    rc, out = sh("go test -json -vet=off -count=1 -timeout 25m ./...", cwd=wt)
    passed = set()
    for line in out.splitlines():
        try: e = json.loads(line)
        except Exception: continue
        if e.get("Action") == "pass" and e.get("Test"):
            passed.add("%s::%s" % (e["Package"], e["Test"]))
    stable = set(json.load(open("/root/.vp/BASELINE.json"))["stable_pass"])
    res["baseline_missing"] = sorted(stable - passed)
    res["baseline_extra"] = sorted(passed - stable)
    res["confirmed"] = bool(rc0 == 0 and res["patch_applies"] and res["builds"] and rc1 != 0 and not res["baseline_missing"])
finally:
    sh("git -C /repo worktree remove --force %s" % wt)
    shutil.rmtree(wt, ignore_errors=True)
if res["confirmed"]:
    dst = "/verif/seeded/%s-%s" % (prop, letter)
    os.makedirs(dst, exist_ok=True)
    shutil.copy(os.path.join(src, "patch.diff"), dst)
    for d in demos: shutil.copy(os.path.join(src, d), dst)
    notes = open(os.path.join(src, "NOTES.md")).read() if os.path.exists(os.path.join(src, "NOTES.md")) else ""
    meta = {"property": prop, "breaks": notes[:1500], "needs_to_manifest": "see breaks/NOTES excerpt", "source": "independent sub-agent given only the property text",
            "confirmed_by": "tools/confirm_seed.py", "ran": res}
    json.dump(meta, open(os.path.join(dst, "meta.json"), "w"), indent=1)
print(json.dumps({k: res[k] for k in ("seed", "confirmed", "patch_applies", "builds", "baseline_missing")}), res["demo_without_patch"]["exit"], res["demo_with_patch"]["exit"])
