#!/usr/bin/env python3
"""Regenerates DESIGN.md section 9.7 (changes to /repo as built) from git history."""
import subprocess
log=subprocess.run(['git','-C','/repo','log','--reverse','--format=%h %s','2666ee5..HEAD'],capture_output=True,text=True).stdout.splitlines()
fixes=[l for l in log if l.split(' ',1)[1].startswith('fix:')]
verifs=[l for l in log if l.split(' ',1)[1].startswith('verif:')]
others=[l for l in log if l not in fixes and l not in verifs]
stat=subprocess.run("git -C /repo diff --shortstat 2666ee5..HEAD -- . ':!*zz_verif_*'",shell=True,capture_output=True,text=True).stdout.strip()
p='/verif/DESIGN.md'
s=open(p).read()
marker="### 9.7 Changes to /repo as built"
sec=marker+"""

Only two kinds of commit exist on top of the pinned commit 2666ee5 (%d commits of another kind):

* **%d `verif:` commits** touching nothing but `zz_verif_contracts.go` files (comments and a package clause) and one
  `storage/zz_verif_lemmas.go` (lemma functions), all behind `//go:build verif`; listed in
  `MANIFEST.hooks.source_commits`. With the tag off the tree compiles to the same code as without them and
  the 47 baseline tests pass (last checked on the final tree).
* **%d `fix:` commits**, each a minimal unguarded repair of one confirmed defect (source files outside the
  hook files: %s), each recorded in `/verif/known_findings.json` with the obligation that failed and a
  witness replayed by the thorough tier:

%s
""" % (len(others), len(verifs), len(fixes), stat, "\n".join("  - `%s` %s"%(l.split(' ',1)[0], l.split(' ',1)[1]) for l in fixes))
if marker in s:
    s=s[:s.index(marker)]
s=s.rstrip()+"\n\n"+sec
open(p,'w').write(s)
print(len(verifs),len(fixes),len(others))
