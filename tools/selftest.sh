#!/bin/sh
# Must-fail corpus: every mutant under /verif/selftest/mutants/<prop>/*.diff must make the
# quick check of <prop> exit 1 with a VIOLATION line. usage: selftest.sh [prop ...]
if [ -n "$(git -C /repo status --porcelain --untracked-files=no)" ]; then echo "refusing to run: /repo has uncommitted changes (they would be lost)"; exit 2; fi
cd /verif/selftest/mutants || exit 2
props="$@"; [ -z "$props" ] && props=$(ls)
fail=0
for p in $props; do
  for d in $p/*.diff; do
    [ -f "$d" ] || continue
    if ! git -C /repo apply --recount --check /verif/selftest/mutants/$d 2>/dev/null; then echo "SELFTEST $d: does not apply"; fail=1; continue; fi
    git -C /repo apply --recount /verif/selftest/mutants/$d
    cp /verif/evidence/$p.json /verif/out/.evidence.$p.bak 2>/dev/null  # evidence describes the unchanged tree: keep it
    out=$(/verif/bin/check $p --tier quick 2>&1); rc=$?
    [ -f /verif/out/.evidence.$p.bak ] && mv /verif/out/.evidence.$p.bak /verif/evidence/$p.json
    git -C /repo checkout -- . 
    n=$(echo "$out" | grep -c '^VIOLATION')
    if [ $rc -eq 1 ] && [ $n -gt 0 ]; then echo "SELFTEST $d: killed ($n violations; $(echo "$out" | grep -m1 'failed obligation' | sed 's/.*failed obligation: //' | cut -c1-110))"; else echo "SELFTEST $d: SURVIVED (exit $rc)"; fail=1; fi
  done
done
exit $fail
